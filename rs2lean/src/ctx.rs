//! Translation context, name resolution, Lean type printing.
use crate::index::*;
use std::collections::{BTreeSet, HashMap};

pub type R<T> = Result<T, String>;

#[derive(Clone, Debug)]
pub struct Tr {
    pub s: String,
    pub ty: Ty,
    pub prop: bool, // for Ty::Bool: `s` is a (decidable) Prop rather than a Bool term
}

impl Tr {
    pub fn new(s: impl Into<String>, ty: Ty) -> Tr {
        Tr { s: s.into(), ty, prop: false }
    }
    pub fn prop(s: impl Into<String>) -> Tr {
        Tr { s: s.into(), ty: Ty::Bool, prop: true }
    }
    pub fn as_prop(&self) -> String {
        if self.prop {
            self.s.clone()
        } else {
            format!("({} = true)", self.s)
        }
    }
    pub fn as_bool(&self) -> String {
        if self.prop {
            format!("(decide {})", self.s)
        } else {
            self.s.clone()
        }
    }
    /// value form (Bool for booleans)
    pub fn val(&self) -> String {
        if self.ty == Ty::Bool {
            self.as_bool()
        } else {
            self.s.clone()
        }
    }
}

pub enum Resolved {
    Fn(String),
    Struct(String),
    Enum(String),
    Variant(String, String),
    Const(String),
    Local(String),
    Special(String),
    Unknown(String),
}

pub struct Ctx<'a> {
    pub idx: &'a Index,
    pub module: Vec<String>,
    pub self_ty: Option<String>,
    pub ret: Ty,
    pub scopes: Vec<HashMap<String, (String, Ty)>>, // rust name -> (lean name, type)
    pub muts: BTreeSet<String>,
    pub deps: BTreeSet<String>,       // fn keys called
    pub const_deps: BTreeSet<String>, // const keys used
    pub sf_calls: BTreeSet<String>,   // function/ fns called through SF
    pub f_layer: bool,
    pub tybind: HashMap<String, Ty>,
    pub local_uses: HashMap<String, Vec<String>>,
    pub fresh: usize,
    pub aux_defs: Vec<String>, // lifted loop definitions (emitted before the function)
    pub fn_lean_name: String,
    pub loop_ctx: Vec<LoopCtx>,
    pub sig_params: Vec<(String, String)>, // (lean name, lean type) of function params incl. self
    pub value_depth: usize,
    pub prelude: Vec<String>,
    pub mut_self: bool,
    pub full_ret_lean: Option<String>,
    pub out_params: Vec<String>, // rust names of `&mut` params (incl. "self") returned alongside the result
    /// the function threads a random source (`rng: &mut R`, `R: Rng`) as explicit state
    pub rng_mode: bool,
    /// uses a primitive of `Model/Rng.lean` that needs `[RngFloat α]`
    pub uses_rngfloat: bool,
    /// nested `fn` items of the function being translated: rust name -> lifted definition
    pub local_fns: HashMap<String, FnInfo>,
}

#[derive(Clone)]
pub struct LoopCtx {
    pub state: Vec<(String, String, Ty)>, // rust name, lean name, type
    pub call: String,                     // "f.loop1 fuel captured..." prefix for the recursive call (without state args)
    pub ret_ty: String,                   // lean type of function return (for LoopR)
}

pub const RNG_TY: &str = "Statrs.Model.Rng";

pub const LEAN_KW: &[&str] = &[
    "end", "begin", "at", "from", "fun", "open", "by", "do", "then", "show", "have", "where", "with", "in", "instance", "Type", "Prop",
    "variable", "section", "namespace", "def", "theorem", "match", "let", "if", "else", "local", "private", "class", "structure",
    "deriving", "prefix", "infix", "notation", "macro", "syntax", "mutual", "universe", "import", "export", "set_option", "attribute",
    "example", "axiom", "abbrev", "inductive", "extends", "using", "calc", "obtain", "suffices", "nomatch", "return", "for", "unless",
    "try", "catch", "finally", "mut", "break", "continue", "Sort", "forall", "exists", "lemma", "omit", "include", "max", "min",
];

pub fn lean_ident(s: &str) -> String {
    if LEAN_KW.contains(&s) || s == "α" {
        format!("{}_", s)
    } else if s == "_" {
        "_".to_string()
    } else {
        s.to_string()
    }
}

impl<'a> Ctx<'a> {
    pub fn lookup(&self, name: &str) -> Option<(String, Ty)> {
        for sc in self.scopes.iter().rev() {
            if let Some(v) = sc.get(name) {
                return Some(v.clone());
            }
        }
        None
    }
    pub fn bind(&mut self, name: &str, ty: Ty) -> String {
        let ln = lean_ident(name);
        self.scopes.last_mut().unwrap().insert(name.to_string(), (ln.clone(), ty));
        ln
    }
    pub fn push(&mut self) {
        self.scopes.push(HashMap::new());
    }
    pub fn pop(&mut self) {
        self.scopes.pop();
    }
    /// `(v, self, p1, …)` when the function has `&mut` parameters
    pub fn with_outs(&self, v: &str) -> String {
        if self.out_params.is_empty() {
            return v.to_string();
        }
        let outs: Vec<String> = self.out_params.iter().map(|n| if n == "self" { "self".to_string() } else { self.lookup(n).map(|x| x.0).unwrap_or(n.clone()) }).collect();
        format!("({}, {})", v, outs.join(", "))
    }
    pub fn take_prelude(&mut self) -> String {
        let p: String = self.prelude.drain(..).collect();
        p
    }
    pub fn fresh(&mut self, base: &str) -> String {
        self.fresh += 1;
        format!("{}_{}", base, self.fresh)
    }

    pub fn struct_has_float(&self, n: &str) -> bool {
        self.idx.structs.get(n).map(|s| s.has_float).unwrap_or(false)
    }

    pub fn lean_ty(&self, t: &Ty) -> R<String> {
        Ok(match t {
            Ty::F64 => "α".into(),
            Ty::Int(_) => "Int".into(),
            Ty::Bool => "Bool".into(),
            Ty::Unit => "Unit".into(),
            Ty::Opt(a) => format!("(Option {})", self.lean_ty(a)?),
            Ty::Res(a, e) => format!("(Except {} {})", self.lean_ty(e)?, self.lean_ty(a)?),
            Ty::Struct(n) => {
                let si = self.idx.structs.get(n).ok_or(format!("unknown struct {}", n))?;
                if !si.supported {
                    return Err(format!("unsupported struct type {}", n));
                }
                if si.has_float {
                    format!("({} α)", n)
                } else {
                    n.clone()
                }
            }
            Ty::Enum(n) => {
                let e = self.idx.enums.get(n).ok_or(format!("unknown enum {}", n))?;
                if !e.plain {
                    return Err(format!("non-plain enum {}", n));
                }
                n.clone()
            }
            Ty::List(a) | Ty::Iter(a) => format!("(List {})", self.lean_ty(a)?),
            Ty::Tuple(v) => {
                let parts: R<Vec<String>> = v.iter().map(|x| self.lean_ty(x)).collect();
                format!("({})", parts?.join(" × "))
            }
            Ty::Fn(ins, out) => {
                let mut parts: Vec<String> = vec![];
                for i in ins {
                    parts.push(self.lean_ty(i)?);
                }
                // a closure that receives the random source (`&mut R`) returns the advanced source with its value
                if ins.iter().any(|i| *i == Ty::Rng) {
                    parts.push(format!("({} × {})", self.lean_ty(out)?, RNG_TY));
                } else {
                    parts.push(self.lean_ty(out)?);
                }
                format!("({})", parts.join(" → "))
            }
            Ty::Rng => RNG_TY.into(),
            Ty::RandUniform => "(Statrs.Model.UniformFloat α)".into(),
            Ty::F32 => return Err("f32".into()),
            Ty::Str => return Err("string type".into()),
            Ty::Never => "Unit".into(),
            Ty::Unknown(s) => return Err(format!("unsupported type `{}`", s)),
        })
    }

    /// Resolve a path (as segments) in the current module.
    pub fn resolve(&self, segs: &[String]) -> Resolved {
        let idx = self.idx;
        if segs.len() == 1 {
            if let Some((ln, _)) = self.lookup(&segs[0]) {
                return Resolved::Local(ln);
            }
        }
        let last = segs.last().unwrap().clone();
        // enum variant / struct: by type name
        if segs.len() >= 2 {
            let tyname = &segs[segs.len() - 2];
            let tyname = if tyname == "Self" { self.self_ty.clone().unwrap_or_default() } else { tyname.clone() };
            if let Some(e) = idx.enums.get(&tyname) {
                if e.variants.contains(&last) {
                    return Resolved::Variant(tyname, last);
                }
            }
            if idx.structs.contains_key(&tyname) || idx.enums.contains_key(&tyname) {
                let k = format!("{}::{}", tyname, last);
                if idx.fns.contains_key(&k) {
                    return Resolved::Fn(k);
                }
            }
            // primitive associated consts / fns
            match (tyname.as_str(), last.as_str()) {
                ("f64", _) | ("consts", _) | ("u64", _) | ("i64", _) | ("i32", _) | ("usize", _) | ("u32", _) | ("T", _) | ("K", _) => {
                    // handled by caller through Special unless `consts` is crate::consts
                    if tyname == "consts" {
                        // crate::consts or f64::consts ?
                        let is_std = segs.len() >= 3 && (segs[segs.len() - 3] == "f64");
                        let crate_consts = self.expand_first(segs).map(|p| p.starts_with(&["crate".to_string(), "consts".to_string()])).unwrap_or(false);
                        if !is_std && crate_consts {
                            let k = format!("crate::consts::{}", last);
                            if idx.consts.contains_key(&k) {
                                return Resolved::Const(k);
                            }
                        }
                    }
                    return Resolved::Special(segs.join("::"));
                }
                _ => {}
            }
        }
        if idx.structs.contains_key(&last) && segs.len() <= 4 && !idx.fns.contains_key(&self.full_key(segs)) {
            return Resolved::Struct(last);
        }
        if idx.enums.contains_key(&last) {
            return Resolved::Enum(last);
        }
        // functions / consts by expanded path
        let full = self.full_key(segs);
        if idx.fns.contains_key(&full) {
            return Resolved::Fn(full);
        }
        if idx.consts.contains_key(&full) {
            return Resolved::Const(full);
        }
        // same-module item
        let local = format!("{}::{}", join(&self.module), segs.join("::"));
        if idx.fns.contains_key(&local) {
            return Resolved::Fn(local);
        }
        if idx.consts.contains_key(&local) {
            return Resolved::Const(local);
        }
        // glob imports / re-exports: unique by (parent module name, name) then by name
        if segs.len() >= 2 {
            let parent = &segs[segs.len() - 2];
            let cands: Vec<&String> = idx
                .fn_by_name
                .get(&last)
                .map(|v| v.iter().filter(|k| k.ends_with(&format!("{}::{}", parent, last)) && !idx.fns[*k].self_ty.is_some()).collect())
                .unwrap_or_default();
            if cands.len() == 1 {
                return Resolved::Fn(cands[0].clone());
            }
            let cc: Vec<&String> = idx
                .const_by_name
                .get(&last)
                .map(|v| v.iter().filter(|k| k.ends_with(&format!("{}::{}", parent, last))).collect())
                .unwrap_or_default();
            if cc.len() == 1 {
                return Resolved::Const(cc[0].clone());
            }
        } else {
            let cands: Vec<&String> =
                idx.fn_by_name.get(&last).map(|v| v.iter().filter(|k| idx.fns[*k].self_ty.is_none()).collect()).unwrap_or_default();
            if cands.len() == 1 {
                return Resolved::Fn(cands[0].clone());
            }
            let cc: Vec<&String> = idx.const_by_name.get(&last).map(|v| v.iter().collect()).unwrap_or_default();
            if cc.len() == 1 {
                return Resolved::Const(cc[0].clone());
            }
        }
        if let Some(full) = self.expand_first(segs) {
            if full.len() >= 2 && (full.contains(&"f64".to_string()) || full[0] == "core" || full[0] == "std") {
                return Resolved::Special(full.join("::"));
            }
        }
        Resolved::Unknown(segs.join("::"))
    }

    pub fn expand_first(&self, segs: &[String]) -> Option<Vec<String>> {
        let first = &segs[0];
        let mut out: Vec<String>;
        if first == "crate" {
            out = vec!["crate".into()];
        } else if first == "super" {
            out = self.module[..self.module.len() - 1].to_vec();
        } else if first == "self" {
            out = self.module.clone();
        } else if let Some(p) = self.local_uses.get(first) {
            out = self.norm_use(p);
        } else if let Some(m) = self.idx.mods.get(&join(&self.module)) {
            if let Some(p) = m.uses.get(first) {
                out = self.norm_use(p);
            } else {
                return None;
            }
        } else {
            return None;
        }
        out.extend_from_slice(&segs[1..]);
        Some(out)
    }

    fn norm_use(&self, p: &[String]) -> Vec<String> {
        if p.is_empty() {
            return vec![];
        }
        if p[0] == "super" {
            let mut o = self.module[..self.module.len() - 1].to_vec();
            o.extend_from_slice(&p[1..]);
            o
        } else if p[0] == "self" {
            let mut o = self.module.clone();
            o.extend_from_slice(&p[1..]);
            o
        } else {
            p.to_vec()
        }
    }

    fn full_key(&self, segs: &[String]) -> String {
        match self.expand_first(segs) {
            Some(p) => join(&p),
            None => segs.join("::"),
        }
    }
}
