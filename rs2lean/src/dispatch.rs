//! Driver-side (Lean) and harness-side (Rust) dispatch tables for translated functions.
//! One entry per translated function whose parameters and result are "wire" types;
//! both sides are generated from the same index so the ids always match.
use crate::ctx::lean_ident;
use crate::index::*;
use crate::Translated;
use std::collections::BTreeMap;
use std::path::Path;

fn rust_int(k: &IntK) -> &'static str {
    match k {
        IntK::U64 => "u64",
        IntK::I64 | IntK::Isize => "i64",
        IntK::Usize => "usize",
        IntK::I32 => "i32",
        IntK::U32 => "u32",
        IntK::U8 => "u8",
        IntK::Unk => "i64",
    }
}

/// parameter wire type: (lean pattern ctor, lean expr from var, rust expr from arg i, sig code)
fn param_wire(idx: &Index, t: &Ty, i: usize, by_ref: bool) -> Option<(String, String, String, String)> {
    let v = format!("a{}", i);
    Some(match t {
        Ty::F64 => (format!("Arg.f {}", v), v.clone(), format!("a[{}].f()", i), "f".into()),
        Ty::Int(k) => (format!("Arg.i {}", v), v.clone(), format!("a[{}].i() as {}", i, rust_int(k)), format!("i:{}", rust_int(k))),
        Ty::Bool => (format!("Arg.b {}", v), v.clone(), format!("a[{}].b()", i), "b".into()),
        Ty::List(e) => match &**e {
            Ty::F64 => (format!("Arg.fl {}", v), v.clone(), format!("{}a[{}].fl()", if by_ref { "&" } else { "" }, i), "F".into()),
            Ty::Int(k) => (
                format!("Arg.il {}", v),
                v.clone(),
                format!("{}a[{}].il().iter().map(|x| *x as {}).collect::<Vec<_>>()", if by_ref { "&" } else { "" }, i, rust_int(k)),
                format!("I:{}", rust_int(k)),
            ),
            _ => return None,
        },
        Ty::Enum(n) => {
            let e = idx.enums.get(n)?;
            if e.payloads.iter().any(|p| p.is_some()) {
                return None;
            }
            let path = pub_path_type(idx, n)?;
            let lean_arms: Vec<String> = e.variants.iter().enumerate().map(|(j, vn)| format!("| {} => {}.{}", j, n, lean_ident(vn))).collect();
            let rust_arms: Vec<String> = e.variants.iter().enumerate().map(|(j, vn)| format!("{} => {}::{},", j, path, vn)).collect();
            (
                format!("Arg.i {}", v),
                format!("(match {} with {} | _ => {}.{})", v, lean_arms.join(" "), n, lean_ident(&e.variants[0])),
                format!("match a[{}].i() {{ {} _ => {}::{} }}", i, rust_arms.join(" "), path, e.variants[0]),
                format!("e:{}", e.variants.len()),
            )
        }
        Ty::Opt(inner) => match &**inner {
            // Option<usize> / Option<f64> / Option<&[f64]> as (flag, value) is not needed often: encode as list (empty = None)
            Ty::Int(k) => (
                format!("Arg.il {}", v),
                format!("(List.head? {})", v),
                format!("a[{}].il().first().map(|x| *x as {})", i, rust_int(k)),
                format!("OI:{}", rust_int(k)),
            ),
            Ty::F64 => (format!("Arg.fl {}", v), format!("(List.head? {})", v), format!("a[{}].fl().first().copied()", i), "OF".into()),
            _ => return None,
        },
        _ => return None,
    })
}

fn ret_ok(idx: &Index, t: &Ty) -> bool {
    match t {
        Ty::F64 | Ty::Int(_) | Ty::Bool | Ty::Unit => true,
        Ty::Opt(a) | Ty::List(a) => ret_ok(idx, a),
        Ty::Res(a, e) => ret_ok(idx, a) && matches!(&**e, Ty::Enum(_)),
        Ty::Tuple(v) => v.iter().all(|x| ret_ok(idx, x)),
        Ty::Struct(_) => true, // rendered opaquely as "struct"
        Ty::Enum(n) => idx.enums.get(n).map(|e| e.plain).unwrap_or(false),
        _ => false,
    }
}

pub fn pub_path_type(idx: &Index, name: &str) -> Option<String> {
    let m = if let Some(s) = idx.structs.get(name) { &s.module } else { &idx.enums.get(name)?.module };
    let m: Vec<&str> = m.iter().map(|s| s.as_str()).collect();
    Some(match m.as_slice() {
        ["crate", "distribution", ..] => format!("statrs::distribution::{}", name),
        ["crate", "statistics", ..] => format!("statrs::statistics::{}", name),
        ["crate", "stats_tests"] => format!("statrs::stats_tests::{}", name),
        ["crate", "stats_tests", sub] => format!("statrs::stats_tests::{}::{}", sub, name),
        ["crate", "function", sub] => format!("statrs::function::{}::{}", sub, name),
        ["crate", top] => format!("statrs::{}::{}", top, name),
        _ => return None,
    })
}

fn pub_path_fn(fi: &FnInfo) -> Option<String> {
    if !fi.is_pub {
        return None;
    }
    let m: Vec<&str> = fi.module.iter().map(|s| s.as_str()).collect();
    Some(match m.as_slice() {
        ["crate", "function", sub] => format!("statrs::function::{}::{}", sub, fi.name),
        ["crate", "stats_tests", sub] => format!("statrs::stats_tests::{}::{}", sub, fi.name),
        ["crate", top] if *top != "distribution" && *top != "statistics" => format!("statrs::{}::{}", top, fi.name),
        _ => return None,
    })
}

fn is_ref_param(fi: &FnInfo, i: usize, src_sig: &BTreeMap<String, Vec<bool>>) -> bool {
    src_sig.get(&fi.key).and_then(|v| v.get(i)).copied().unwrap_or(false)
}

pub fn emit(idx: &Index, ok: &BTreeMap<String, Translated>, out: &Path, harness: Option<&Path>) {
    let mut lean = String::new();
    let mut rust = String::new();
    let mut sigs: Vec<serde_json::Value> = vec![];
    lean.push_str("-- GENERATED by rs2lean — do not edit\nimport Statrs.Driver.Proto\nimport Statrs.Gen.SFFloat\nimport Statrs.Gen.All\nset_option maxRecDepth 8192\nnamespace Statrs.Gen.Dispatch\nopen Statrs Statrs.Gen Statrs.Driver\n\n");
    rust.push_str("// GENERATED by rs2lean — do not edit\n#![allow(unused_imports, unused_variables, clippy::all)]\nuse crate::proto::*;\nuse statrs::distribution::*;\nuse statrs::statistics::*;\n\npub fn dispatch(id: &str, a: &[Arg]) -> Option<String> {\n    Some(match id {\n");
    for st in idx.structs.values() {
        if !st.supported {
            continue;
        }
        let t = if st.has_float { format!("({} Float)", st.name) } else { st.name.clone() };
        lean.push_str(&format!("instance : ToReply {} := ⟨fun _ => \"struct\"⟩\n", t));
    }
    for e in idx.enums.values() {
        if e.plain && !e.variants.is_empty() && e.payloads.iter().all(|p| p.as_ref().map(|t| matches!(t, Ty::Enum(_))).unwrap_or(true)) {
            lean.push_str(&format!("instance : ToReply {} := ⟨fun e => variantStr e⟩\n", e.name));
        }
    }
    lean.push('\n');
    // which params are references in the source (needed to pass `&` for slices): all List params are passed by ref
    let src_sig: BTreeMap<String, Vec<bool>> = BTreeMap::new();
    let mut names: Vec<(String, String)> = vec![];
    let mut n = 0usize;
    for (k, _t) in ok {
        let fi = match idx.fns.get(k) {
            Some(f) => f,
            None => continue,
        };
        if !ret_ok(idx, &fi.ret) || fi.self_kind == SelfKind::MutRef || fi.param_ref.iter().any(|r| *r == 2) {
            continue;
        }
        if fi.self_ty.as_deref() == Some("Data") || matches!(fi.trait_name.as_deref(), Some("Index") | Some("IndexMut")) {
            continue; // generic wrapper: hand dispatch
        }
        // receiver
        let mut pats: Vec<String> = vec![];
        let mut lean_args: Vec<String> = vec![];
        let mut rust_args: Vec<String> = vec![];
        let mut sig: Vec<String> = vec![];
        let mut ai = 0usize;
        let mut lean_pre = String::new();
        let mut lean_post = String::new();
        let mut rust_pre = String::new();
        let rust_call: String;
        let mut ctor_sig: Vec<String> = vec![];
        let mut good = true;
        if fi.self_kind != SelfKind::None {
            let sty = fi.self_ty.clone().unwrap();
            if idx.structs.contains_key(&sty) {
                let ck = format!("{}::new", sty);
                let ctor = match idx.fns.get(&ck) {
                    Some(c) if ok.contains_key(&ck) && c.is_pub => c,
                    _ => continue,
                };
                let tpath = match pub_path_type(idx, &sty) {
                    Some(p) => p,
                    None => continue,
                };
                let mut cl = vec![];
                let mut cr = vec![];
                for (pi, (_, pt)) in ctor.params.iter().enumerate() {
                    match param_wire(idx, pt, ai, ctor.param_ref.get(pi).copied().unwrap_or(0) == 1) {
                        Some((p, l, r, s)) => {
                            pats.push(p);
                            cl.push(l);
                            cr.push(r);
                            ctor_sig.push(s);
                        }
                        None => good = false,
                    }
                    ai += 1;
                }
                if !good {
                    continue;
                }
                match &ctor.ret {
                    Ty::Res(_, _) => {
                        lean_pre = format!("match {}.new (α := Float) {} with\n    | .error e => ctorErr (variantStr e)\n    | .ok d => ", sty, cl.join(" "));
                        rust_pre = format!("let d = match {}::new({}) {{ Ok(d) => d, Err(e) => return Some(ctor_err(&e)) }}; ", tpath, cr.join(", "));
                    }
                    Ty::Struct(_) => {
                        lean_pre = format!("let d := {}.new (α := Float) {}\n    ", sty, cl.join(" "));
                        rust_pre = format!("let d = {}::new({}); ", tpath, cr.join(", "));
                    }
                    _ => continue,
                }
                let _ = &mut lean_post;
                lean_args.push("d".into());
            } else if ["f64", "i64", "u64", "i32", "u32"].contains(&sty.as_str()) {
                // method on a primitive (euclid::Modulus)
                let st = fi.tybind.get("Self").cloned().unwrap();
                match param_wire(idx, &st, ai, false) {
                    Some((p, l, r, s)) => {
                        pats.push(p);
                        lean_args.push(l);
                        rust_pre = format!("use statrs::euclid::Modulus; let d = {}; ", r);
                        ctor_sig.push(s);
                    }
                    None => continue,
                }
                ai += 1;
            } else {
                continue;
            }
        }
        for (pi, (_, pt)) in fi.params.iter().enumerate() {
            let pr = fi.param_ref.get(pi).copied().unwrap_or(0);
            match param_wire(idx, pt, ai, pr == 1 || pr == 3) {
                Some((p, l, r, s)) => {
                    let r = if pr == 3 { format!("({}[..]).try_into().unwrap()", r) } else { r };
                    pats.push(p);
                    lean_args.push(l);
                    rust_args.push(r);
                    sig.push(s);
                }
                None => good = false,
            }
            ai += 1;
        }
        if !good {
            continue;
        }
        let _ = is_ref_param(fi, 0, &src_sig);
        if fi.self_kind != SelfKind::None {
            rust_call = format!("d.{}({})", fi.name, rust_args.join(", "));
        } else if let Some(st) = &fi.self_ty {
            // associated function without receiver (new, standard, ...)
            let tpath = match pub_path_type(idx, st) {
                Some(p) => p,
                None => continue,
            };
            if !fi.is_pub {
                continue;
            }
            rust_call = format!("{}::{}({})", tpath, fi.name, rust_args.join(", "));
        } else {
            match pub_path_fn(fi) {
                Some(p) => rust_call = format!("{}({})", p, rust_args.join(", ")),
                None => continue,
            }
        }
        if fi.trait_name.is_none() && fi.self_kind != SelfKind::None && !fi.is_pub {
            continue; // private inherent method
        }
        n += 1;
        let dn = format!("d{}", n);
        let id = k.clone();
        lean.push_str(&format!(
            "def {} : List Arg → String\n  | [{}] =>\n    {}reply ({} (α := Float) {})\n  | _ => \"bad-args\"\n\n",
            dn,
            pats.join(", "),
            lean_pre,
            fi.lean_name,
            lean_args.join(" ")
        ));
        names.push((id.clone(), dn));
        rust.push_str(&format!("        {:?} => {{ if a.len() != {} {{ return Some(\"bad-args\".into()); }} {}rep(&({})) }}\n", id, ai, rust_pre, rust_call));
        let pname = |p: &syn::Pat| match p {
            syn::Pat::Ident(i) => i.ident.to_string(),
            _ => "_".to_string(),
        };
        let param_names: Vec<String> = fi.params.iter().map(|(p, _)| pname(p)).collect();
        let ctor_names: Vec<String> = match &fi.self_ty {
            Some(st) if fi.self_kind != SelfKind::None => idx.fns.get(&format!("{}::new", st)).map(|c| c.params.iter().map(|(p, _)| pname(p)).collect()).unwrap_or_default(),
            _ => vec![],
        };
        sigs.push(serde_json::json!({"id": id, "ctor": ctor_sig, "params": sig, "self": fi.self_ty, "method": fi.name,
            "param_names": param_names, "ctor_names": ctor_names, "trait": fi.trait_name,
            "file": fi.file, "ret": format!("{:?}", fi.ret)}));
    }
    let mut tabs = vec![];
    for (ci, chunk) in names.chunks(40).enumerate() {
        lean.push_str(&format!("def table{} : List (String × (List Arg → String)) := [\n", ci));
        let rows: Vec<String> = chunk.iter().map(|(id, dn)| format!("  ({:?}, {})", id, dn)).collect();
        lean.push_str(&rows.join(",\n"));
        lean.push_str("]\n\n");
        tabs.push(format!("table{}", ci));
    }
    lean.push_str(&format!("def table : List (String × (List Arg → String)) :=\n  {}\n\nend Statrs.Gen.Dispatch\n", tabs.join(" ++ ")));
    rust.push_str("        _ => return None,\n    })\n}\n\n");
    for st in idx.structs.values() {
        if st.supported {
            if let Some(p) = pub_path_type(idx, &st.name) {
                if p.starts_with("statrs::distribution::") || p.starts_with("statrs::generate::") {
                    rust.push_str(&format!("struct_rep!({});\n", p));
                }
            }
        }
    }
    let mut ret_enums: std::collections::BTreeSet<String> = Default::default();
    fn collect_enums(t: &Ty, out: &mut std::collections::BTreeSet<String>) {
        match t {
            Ty::Enum(n) => {
                out.insert(n.clone());
            }
            Ty::Opt(a) | Ty::List(a) => collect_enums(a, out),
            Ty::Res(a, _) => collect_enums(a, out),
            Ty::Tuple(v) => v.iter().for_each(|x| collect_enums(x, out)),
            _ => {}
        }
    }
    for s in &sigs {
        let id = s["id"].as_str().unwrap();
        collect_enums(&idx.fns[id].ret, &mut ret_enums);
    }
    for e in ret_enums {
        if let Some(p) = pub_path_type(idx, &e) {
            rust.push_str(&format!("enum_rep!({});\n", p));
        }
    }
    crate::write_if_changed_pub(&out.join("Dispatch.lean"), &lean);
    crate::write_if_changed_pub(&out.join("signatures.json"), &serde_json::to_string_pretty(&sigs).unwrap());
    if let Some(h) = harness {
        crate::write_if_changed_pub(h, &rust);
    }
}
