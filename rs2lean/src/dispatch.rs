//! Driver-side (Lean) and harness-side (Rust) dispatch tables for translated functions.
use crate::index::*;
use crate::Translated;
use std::collections::BTreeMap;
use std::path::Path;

pub fn emit(_idx: &Index, _ok: &BTreeMap<String, Translated>, _out: &Path, _harness: Option<&Path>) {}
