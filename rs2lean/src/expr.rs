//! Expression translation.
use crate::ctx::*;
use crate::index::*;
use crate::stmt::*;
use quote::ToTokens;
use syn::punctuated::Punctuated;
use syn::*;

pub const BINDERS: &str = "{α : Type} [Add α] [Sub α] [Mul α] [Div α] [Neg α] [LT α] [LE α] [BEq α] [DecidableLT α] [DecidableLE α] [OfScientific α] [Inhabited α] [RFun α]";

pub fn is_int(t: &Ty) -> bool {
    matches!(t, Ty::Int(_))
}
fn unsigned(k: &IntK) -> bool {
    matches!(k, IntK::U64 | IntK::Usize | IntK::U32 | IntK::U8)
}

pub fn path_segs(p: &Path) -> Vec<String> {
    p.segments.iter().map(|s| s.ident.to_string()).collect()
}

pub fn strip(e: &Expr) -> &Expr {
    match e {
        Expr::Paren(p) => strip(&p.expr),
        Expr::Group(g) => strip(&g.expr),
        Expr::Reference(r) => strip(&r.expr),
        Expr::Unary(ExprUnary { op: UnOp::Deref(_), expr, .. }) => strip(expr),
        _ => e,
    }
}

fn float_lit(s: &str) -> String {
    let mut t: String = s.replace('_', "");
    for suf in ["f64", "f32"] {
        if t.ends_with(suf) {
            t.truncate(t.len() - 3);
        }
    }
    if t.ends_with('.') {
        t.push('0');
    }
    if !t.contains('.') && !t.contains('e') && !t.contains('E') {
        t.push_str(".0");
    }
    // Lean wants digits before 'e' with optional fraction; "1e5" ok, "1.e5" not
    t = t.replace(".e", ".0e").replace(".E", ".0E");
    t
}

pub fn tuple_proj(base: &str, i: usize, n: usize) -> String {
    let mut s = base.to_string();
    if i + 1 < n {
        for _ in 0..i {
            s.push_str(".2");
        }
        s.push_str(".1");
    } else {
        for _ in 0..i {
            s.push_str(".2");
        }
    }
    s
}

fn special_const(cx: &Ctx, segs: &[String]) -> Option<Tr> {
    let last = segs.last().unwrap().as_str();
    let prev = if segs.len() >= 2 { segs[segs.len() - 2].as_str() } else { "" };
    let f = |s: &str| Some(Tr::new(format!("(RFun.{} : α)", s), Ty::F64));
    let i = |s: &str, k: IntK| Some(Tr::new(s.to_string(), Ty::Int(k)));
    let _ = cx;
    match (prev, last) {
        ("f64", "INFINITY") => f("inf"),
        ("f64", "NEG_INFINITY") => f("negInf"),
        ("f64", "NAN") => f("nan"),
        ("f64", "EPSILON") => f("epsilon"),
        ("f64", "MAX") => f("maxVal"),
        ("f64", "MIN") => f("minVal"),
        ("f64", "MIN_POSITIVE") => f("minPositive"),
        ("consts", "PI") => f("pi"),
        ("consts", "TAU") => f("tau"),
        ("consts", "E") => f("e"),
        ("consts", "LN_2") => f("ln2"),
        ("consts", "LN_10") => f("ln10"),
        ("consts", "SQRT_2") => f("sqrt2"),
        ("consts", "FRAC_1_SQRT_2") => f("frac1Sqrt2"),
        ("consts", "FRAC_PI_2") => f("fracPi2"),
        ("u64", "MAX") => i("u64Max", IntK::U64),
        ("usize", "MAX") => i("u64Max", IntK::Usize),
        ("i64", "MAX") => i("i64Max", IntK::I64),
        ("i64", "MIN") => i("i64Min", IntK::I64),
        ("i32", "MAX") => i("i32Max", IntK::I32),
        ("i32", "MIN") => i("i32Min", IntK::I32),
        _ => None,
    }
}

pub fn cast(cx: &Ctx, v: &Tr, to: &Ty) -> R<Tr> {
    let _ = cx;
    let s = match (&v.ty, to) {
        (a, b) if a == b => v.val(),
        (Ty::Int(_), Ty::F64) => format!("(RFun.ofInt {} : α)", v.s),
        (Ty::F64, Ty::Int(k)) => match k {
            IntK::U64 | IntK::Usize => format!("(RFun.toU64 {})", v.s),
            IntK::I64 | IntK::Isize => format!("(RFun.toI64 {})", v.s),
            IntK::I32 => format!("(RFun.toI32 {})", v.s),
            IntK::U32 => format!("(RFun.toU32 {})", v.s),
            _ => return Err("cast f64 -> small int".into()),
        },
        (Ty::Int(a), Ty::Int(b)) => {
            let w = |k: &IntK| match k {
                IntK::U64 | IntK::Usize | IntK::I64 | IntK::Isize => 64,
                IntK::I32 | IntK::U32 => 32,
                IntK::U8 => 8,
                IntK::Unk => 64,
            };
            if *a == IntK::Unk {
                v.s.clone()
            } else if unsigned(a) && unsigned(b) && w(b) >= w(a) {
                v.s.clone()
            } else if !unsigned(a) && !unsigned(b) && w(b) >= w(a) {
                v.s.clone()
            } else if unsigned(a) && !unsigned(b) && w(b) > w(a) {
                v.s.clone()
            } else {
                match b {
                    IntK::I64 | IntK::Isize => format!("(wrapI64 {})", v.s),
                    IntK::U64 | IntK::Usize => format!("(wrapU64 {})", v.s),
                    IntK::I32 => format!("(wrapI32 {})", v.s),
                    IntK::U32 => format!("(wrapU32 {})", v.s),
                    _ => return Err("int cast".into()),
                }
            }
        }
        (Ty::Bool, Ty::Int(_)) => format!("(if {} then (1:Int) else 0)", v.as_prop()),
        (Ty::Bool, Ty::F64) => format!("(if {} then (1.0:α) else (0.0:α))", v.as_prop()),
        (a, b) => return Err(format!("unsupported cast {:?} -> {:?}", a, b)),
    };
    Ok(Tr::new(s, to.clone()))
}

/// value of a constant integer expression (literals, `<<`, `>>`)
pub fn const_int(e: &Expr) -> Option<u128> {
    match strip(e) {
        Expr::Lit(ExprLit { lit: Lit::Int(i), .. }) => i.base10_parse::<u128>().ok(),
        Expr::Binary(b) => {
            let l = const_int(&b.left)?;
            let r = const_int(&b.right)?;
            match b.op {
                BinOp::Shl(_) if r < 100 => l.checked_shl(r as u32),
                BinOp::Shr(_) if r < 100 => Some(l >> r),
                _ => None,
            }
        }
        _ => None,
    }
}

fn is_unsuffixed_int_lit(e: &Expr) -> bool {
    match strip(e) {
        Expr::Lit(ExprLit { lit: Lit::Int(i), .. }) => i.suffix().is_empty(),
        Expr::Unary(ExprUnary { op: UnOp::Neg(_), expr, .. }) => is_unsuffixed_int_lit(expr),
        Expr::Binary(b) => is_unsuffixed_int_lit(&b.left) && is_unsuffixed_int_lit(&b.right),
        _ => false,
    }
}

pub fn tr_expr(cx: &mut Ctx, e: &Expr, expected: Option<&Ty>) -> R<Tr> {
    match e {
        Expr::Paren(p) => tr_expr(cx, &p.expr, expected),
        Expr::Group(g) => tr_expr(cx, &g.expr, expected),
        Expr::Reference(r) => tr_expr(cx, &r.expr, expected),
        Expr::Lit(l) => match &l.lit {
            Lit::Float(f) => Ok(Tr::new(format!("({} : α)", float_lit(&f.to_string())), Ty::F64)),
            Lit::Int(i) => {
                let suf = i.suffix();
                let digits = i.base10_digits();
                if suf == "f64" || (suf.is_empty() && expected == Some(&Ty::F64)) {
                    return Ok(Tr::new(format!("({}.0 : α)", digits), Ty::F64));
                }
                let k = match suf {
                    "u64" => IntK::U64,
                    "i64" => IntK::I64,
                    "usize" => IntK::Usize,
                    "i32" => IntK::I32,
                    "u32" => IntK::U32,
                    "isize" => IntK::I64,
                    "" => match expected {
                        Some(Ty::Int(k)) => k.clone(),
                        _ => IntK::Unk,
                    },
                    _ => return Err(format!("int suffix {}", suf)),
                };
                Ok(Tr::new(format!("({} : Int)", digits), Ty::Int(k)))
            }
            Lit::Bool(b) => Ok(Tr::new(if b.value { "true" } else { "false" }, Ty::Bool)),
            _ => Err("unsupported literal".into()),
        },
        Expr::Path(p) => {
            let segs = path_segs(&p.path);
            if segs.len() == 1 && segs[0] == "None" && cx.lookup("None").is_none() {
                let t = expected.cloned().unwrap_or(Ty::Opt(Box::new(Ty::Unknown("?".into()))));
                return Ok(Tr::new("none", t));
            }
            if segs.len() == 1 && segs[0] == "self" {
                let st = cx.self_ty.clone().ok_or("self outside impl")?;
                return Ok(Tr::new("self", cx.tybind.get("Self").cloned().unwrap_or(Ty::Struct(st))));
            }
            match cx.resolve(&segs) {
                Resolved::Local(_) => {
                    let (ln, ty) = cx.lookup(&segs[0]).unwrap();
                    Ok(Tr::new(ln, ty))
                }
                Resolved::Const(k) => {
                    let c = cx.idx.consts.get(&k).unwrap().clone();
                    if c.module == ["crate", "consts"] && c.ty == Ty::F64 && ["SQRT_2PI","LN_PI","LN_SQRT_2PI","LN_SQRT_2PIE","LN_2_SQRT_E_OVER_PI","TWO_SQRT_E_OVER_PI","EULER_MASCHERONI"].contains(&c.name.as_str()) {
                        return Ok(Tr::new(format!("(RFun.c_{} : α)", c.name), Ty::F64));
                    }
                    cx.const_deps.insert(k);
                    Ok(Tr::new(format!("({} (α := α))", c.lean_name), c.ty.clone()))
                }
                Resolved::Variant(en, v) => Ok(Tr::new(format!("{}.{}", en, lean_ident(&v)), Ty::Enum(en))),
                Resolved::Special(s) => {
                    let sg: Vec<String> = s.split("::").map(|x| x.to_string()).collect();
                    special_const(cx, &sg).ok_or(format!("unknown special path {}", s))
                }
                Resolved::Fn(k) => Err(format!("function value {}", k)),
                Resolved::Struct(s) => Err(format!("struct path as value {}", s)),
                Resolved::Enum(s) => Err(format!("enum path as value {}", s)),
                Resolved::Unknown(s) => Err(format!("unresolved path {}", s)),
            }
        }
        Expr::Unary(u) => match u.op {
            UnOp::Deref(_) => tr_expr(cx, &u.expr, expected),
            UnOp::Neg(_) => {
                let v = tr_expr(cx, &u.expr, expected)?;
                Ok(Tr::new(format!("(-{})", v.s), v.ty))
            }
            UnOp::Not(_) => {
                let v = tr_expr(cx, &u.expr, expected)?;
                if v.ty != Ty::Bool {
                    return Err("bitwise not".into());
                }
                Ok(Tr::prop(format!("(¬ {})", v.as_prop())))
            }
            _ => Err("unary op".into()),
        },
        Expr::Binary(b) => tr_binary(cx, b, expected),
        Expr::Cast(c) => {
            let to = conv_type(&c.ty, &cx.tybind);
            if cx.rng_mode && to == Ty::F64 && matches!(strip(&c.expr), Expr::Binary(_)) {
                // a constant such as `(1u64 << 53) as f64` is evaluated by rustc; exactly representable values only
                if let Some(v) = const_int(&c.expr) {
                    if (v as f64) as u128 == v && v < (1u128 << 100) {
                        return Ok(Tr::new(format!("({}.0 : α)", v), Ty::F64));
                    }
                    return Err("constant integer that is not exactly representable as f64".into());
                }
            }
            let hint = if is_unsuffixed_int_lit(&c.expr) { Some(Ty::Int(IntK::Unk)) } else { None };
            let v = tr_expr(cx, &c.expr, hint.as_ref())?;
            cast(cx, &v, &to)
        }
        Expr::Field(f) => {
            let base = tr_expr(cx, &f.base, None)?;
            match (&base.ty, &f.member) {
                (Ty::Struct(sn), Member::Named(id)) => {
                    let si = cx.idx.structs.get(sn).ok_or("unknown struct")?;
                    let fname = id.to_string();
                    let fty = si.fields.iter().find(|(n, _)| *n == fname).ok_or(format!("no field {}", fname))?.1.clone();
                    Ok(Tr::new(format!("{}.f_{}", base.s, fname), fty))
                }
                (Ty::Struct(sn), Member::Unnamed(ix)) => {
                    let si = cx.idx.structs.get(sn).ok_or("unknown struct")?;
                    let fty = si.fields.get(ix.index as usize).ok_or("tuple struct field")?.1.clone();
                    Ok(Tr::new(format!("{}.f_{}", base.s, ix.index), fty))
                }
                (Ty::Tuple(ts), Member::Unnamed(ix)) => {
                    let i = ix.index as usize;
                    Ok(Tr::new(tuple_proj(&base.s, i, ts.len()), ts[i].clone()))
                }
                (t, m) => Err(format!("field access {:?} on {:?}", m.to_token_stream().to_string(), t)),
            }
        }
        Expr::Index(ix) => {
            let base = tr_expr(cx, &ix.expr, None)?;
            let base = match &base.ty {
                Ty::Struct(sn) if sn == "Data" => Tr::new(format!("{}.f_0", base.s), Ty::List(Box::new(Ty::F64))),
                _ => base,
            };
            let elem = match &base.ty {
                Ty::List(t) => (**t).clone(),
                t => return Err(format!("index on {:?}", t)),
            };
            if let Expr::Range(r) = strip(&ix.index) {
                let lo = match &r.start {
                    Some(s) => tr_expr(cx, s, Some(&Ty::Int(IntK::Usize)))?.s,
                    None => "(0:Int)".into(),
                };
                let s = match &r.end {
                    Some(h) => {
                        let hi = tr_expr(cx, h, Some(&Ty::Int(IntK::Usize)))?.s;
                        let hi = if matches!(r.limits, RangeLimits::Closed(_)) { format!("({} + 1)", hi) } else { hi };
                        format!("((List.drop (Int.toNat {lo}) {b}).take (Int.toNat ({hi} - {lo})))", lo = lo, hi = hi, b = base.s)
                    }
                    None => format!("(List.drop (Int.toNat {}) {})", lo, base.s),
                };
                return Ok(Tr::new(s, base.ty.clone()));
            }
            let i = tr_expr(cx, &ix.index, Some(&Ty::Int(IntK::Usize)))?;
            Ok(Tr::new(format!("(listGet {} {})", base.s, i.s), elem))
        }
        Expr::If(i) => tr_if(cx, i, expected),
        Expr::Block(b) => {
            let s = tr_block_value(cx, &b.block, expected)?;
            Ok(s)
        }
        Expr::Call(c) => tr_call(cx, c, expected),
        Expr::MethodCall(m) => crate::method::tr_method(cx, m, expected),
        Expr::Macro(m) => tr_macro(cx, &m.mac, expected),
        Expr::Tuple(t) => {
            if t.elems.is_empty() {
                return Ok(Tr::new("()", Ty::Unit));
            }
            let exp_elems: Vec<Option<Ty>> = match expected {
                Some(Ty::Tuple(ts)) if ts.len() == t.elems.len() => ts.iter().map(|x| Some(x.clone())).collect(),
                _ => vec![None; t.elems.len()],
            };
            let mut ss = vec![];
            let mut tys = vec![];
            for (el, ex) in t.elems.iter().zip(exp_elems.iter()) {
                let v = tr_expr(cx, el, ex.as_ref())?;
                ss.push(v.val());
                tys.push(v.ty);
            }
            Ok(Tr::new(format!("({})", ss.join(", ")), Ty::Tuple(tys)))
        }
        Expr::Struct(s) => {
            let segs = path_segs(&s.path);
            let name = if segs.last().unwrap() == "Self" { cx.self_ty.clone().ok_or("Self")? } else { segs.last().unwrap().clone() };
            let si = cx.idx.structs.get(&name).ok_or(format!("unknown struct {}", name))?.clone();
            if s.rest.is_some() {
                return Err("struct update syntax".into());
            }
            let mut fs = vec![];
            for fv in &s.fields {
                let fname = match &fv.member {
                    Member::Named(i) => i.to_string(),
                    Member::Unnamed(i) => i.index.to_string(),
                };
                let fty = si.fields.iter().find(|(n, _)| *n == fname).ok_or("field")?.1.clone();
                let v = tr_expr(cx, &fv.expr, Some(&fty))?;
                fs.push(format!("f_{} := {}", fname, v.val()));
            }
            let ty = Ty::Struct(name.clone());
            Ok(Tr::new(format!("({{ {} }} : {})", fs.join(", "), cx.lean_ty(&ty)?), ty))
        }
        Expr::Match(m) => tr_match(cx, m, expected),
        Expr::Range(r) => {
            let lo = match &r.start {
                Some(s) => tr_expr(cx, s, Some(&Ty::Int(IntK::Unk)))?,
                None => return Err("open range".into()),
            };
            let hi = match &r.end {
                Some(s) => tr_expr(cx, s, Some(&lo.ty))?,
                None => return Err("open range".into()),
            };
            if !is_int(&lo.ty) && !is_int(&hi.ty) {
                return Err("non-integer range as value".into());
            }
            let k = if lo.ty == Ty::Int(IntK::Unk) { hi.ty.clone() } else { lo.ty.clone() };
            let his = if matches!(r.limits, RangeLimits::Closed(_)) { format!("({} + 1)", hi.s) } else { hi.s };
            Ok(Tr::new(format!("(rangeList {} {})", lo.s, his), Ty::Iter(Box::new(k))))
        }
        Expr::Array(a) => {
            let ex = match expected {
                Some(Ty::List(t)) => Some((**t).clone()),
                _ => None,
            };
            let mut ss = vec![];
            let mut ty = ex.clone();
            for el in &a.elems {
                let v = tr_expr(cx, el, ty.as_ref())?;
                if ty.is_none() || matches!(ty, Some(Ty::Int(IntK::Unk))) {
                    ty = Some(v.ty.clone());
                }
                ss.push(v.val());
            }
            let ty = ty.ok_or("empty array literal of unknown type")?;
            Ok(Tr::new(format!("([{}] : {})", ss.join(", "), cx.lean_ty(&Ty::List(Box::new(ty.clone())))?), Ty::List(Box::new(ty))))
        }
        Expr::Repeat(r) => {
            let ex = match expected {
                Some(Ty::List(t)) => Some((**t).clone()),
                _ => None,
            };
            let v = tr_expr(cx, &r.expr, ex.as_ref())?;
            let n = tr_expr(cx, &r.len, Some(&Ty::Int(IntK::Usize)))?;
            Ok(Tr::new(format!("(List.replicate (Int.toNat {}) {})", n.s, v.val()), Ty::List(Box::new(v.ty))))
        }
        Expr::Return(_) => Err("return in expression position".into()),
        Expr::Try(t) => {
            // `e?` inside an expression: hoisted in front of the enclosing statement as
            // `match e with | none/.error => <early return> | some/.ok tmp => <statement and rest>`
            let inner = tr_expr(cx, &t.expr, None)?;
            let tmp = cx.fresh("q");
            let ret_wrap = |cx: &Ctx, v: String| -> String {
                let v = if cx.mut_self && cx.value_depth == 0 { cx.with_outs(&v) } else { v };
                if cx.loop_ctx.is_empty() || cx.value_depth > 0 { v } else { format!("(LoopR.ret {})", v) }
            };
            match inner.ty.clone() {
                Ty::Opt(v) => {
                    if !matches!(cx.ret, Ty::Opt(_)) {
                        return Err("`?` on Option in a non-Option function".into());
                    }
                    let r = ret_wrap(cx, "none".into());
                    cx.prelude.push(format!("match {} with\n | none => {}\n | some {} =>\n", inner.s, r, tmp));
                    Ok(Tr::new(tmp, *v))
                }
                Ty::Res(v, e1) => {
                    let conv = match &cx.ret {
                        Ty::Res(_, e2) if **e2 != *e1 => {
                            if let Ty::Enum(n2) = &**e2 {
                                let k = format!("{}::from", n2);
                                if cx.idx.fns.contains_key(&k) {
                                    cx.deps.insert(k);
                                    format!("(.error ({}.from (α := α) e_))", n2)
                                } else {
                                    return Err("? with error conversion".into());
                                }
                            } else {
                                return Err("? with error conversion".into());
                            }
                        }
                        Ty::Res(_, _) => "(.error e_)".to_string(),
                        _ => return Err("`?` on Result in a non-Result function".into()),
                    };
                    let r = ret_wrap(cx, conv);
                    cx.prelude.push(format!("match {} with\n | .error e_ => {}\n | .ok {} =>\n", inner.s, r, tmp));
                    Ok(Tr::new(tmp, *v))
                }
                other => Err(format!("? on {:?}", other)),
            }
        }
        Expr::Closure(_) => Err("closure in unsupported position".into()),
        Expr::Let(_) => Err("let-expression in unsupported position".into()),
        Expr::Loop(_) | Expr::While(_) | Expr::ForLoop(_) => Err("loop in expression position".into()),
        other => Err(format!("unsupported expression kind: {}", other.to_token_stream().to_string().chars().take(60).collect::<String>())),
    }
}

fn tr_binary(cx: &mut Ctx, b: &ExprBinary, expected: Option<&Ty>) -> R<Tr> {
    use BinOp::*;
    let is_cmp = matches!(b.op, Lt(_) | Le(_) | Gt(_) | Ge(_) | Eq(_) | Ne(_));
    let is_logic = matches!(b.op, And(_) | Or(_));
    if is_logic {
        let l = tr_expr(cx, &b.left, Some(&Ty::Bool))?;
        let n_pre = cx.prelude.len();
        let r = tr_expr(cx, &b.right, Some(&Ty::Bool))?;
        if cx.rng_mode && cx.prelude.len() != n_pre {
            return Err("side effect in the right operand of a short-circuit operator".into());
        }
        let op = if matches!(b.op, And(_)) { "∧" } else { "∨" };
        return Ok(Tr::prop(format!("({} {} {})", l.as_prop(), op, r.as_prop())));
    }
    // operand typing: translate the non-literal side first
    let exp_operand: Option<Ty> = if is_cmp { None } else { expected.cloned() };
    let (l, r) = if is_unsuffixed_int_lit(&b.left) && !is_unsuffixed_int_lit(&b.right) {
        let r = tr_expr(cx, &b.right, exp_operand.as_ref())?;
        let l = tr_expr(cx, &b.left, Some(&r.ty))?;
        (l, r)
    } else {
        let l = tr_expr(cx, &b.left, exp_operand.as_ref())?;
        let hint = if is_int(&l.ty) || l.ty == Ty::F64 { Some(l.ty.clone()) } else { exp_operand.clone() };
        let r = tr_expr(cx, &b.right, hint.as_ref())?;
        (l, r)
    };
    let ty = if l.ty == Ty::Int(IntK::Unk) { r.ty.clone() } else { l.ty.clone() };
    let both_float = l.ty == Ty::F64 && r.ty == Ty::F64;
    let both_int = is_int(&l.ty) && is_int(&r.ty);
    if is_cmp {
        if both_float || both_int {
            let s = match b.op {
                Lt(_) => format!("({} < {})", l.s, r.s),
                Le(_) => format!("({} ≤ {})", l.s, r.s),
                Gt(_) => format!("({} < {})", r.s, l.s),
                Ge(_) => format!("({} ≤ {})", r.s, l.s),
                Eq(_) => {
                    if both_float {
                        format!("(({} == {}) = true)", l.s, r.s)
                    } else {
                        format!("({} = {})", l.s, r.s)
                    }
                }
                Ne(_) => {
                    if both_float {
                        format!("(¬ (({} == {}) = true))", l.s, r.s)
                    } else {
                        format!("({} ≠ {})", l.s, r.s)
                    }
                }
                _ => unreachable!(),
            };
            return Ok(Tr::prop(s));
        }
        if l.ty == Ty::Bool && r.ty == Ty::Bool {
            let s = match b.op {
                Eq(_) => format!("({} = {})", l.as_bool(), r.as_bool()),
                Ne(_) => format!("({} ≠ {})", l.as_bool(), r.as_bool()),
                _ => return Err("bool ordering".into()),
            };
            return Ok(Tr::prop(s));
        }
        if let (Ty::Enum(a), Ty::Enum(c)) = (&l.ty, &r.ty) {
            if a == c {
                let s = match b.op {
                    Eq(_) => format!("({} = {})", l.s, r.s),
                    Ne(_) => format!("({} ≠ {})", l.s, r.s),
                    _ => return Err("enum ordering".into()),
                };
                return Ok(Tr::prop(s));
            }
        }
        return Err(format!("comparison of {:?} and {:?}", l.ty, r.ty));
    }
    if both_float {
        let s = match b.op {
            Add(_) => format!("({} + {})", l.s, r.s),
            Sub(_) => format!("({} - {})", l.s, r.s),
            Mul(_) => format!("({} * {})", l.s, r.s),
            Div(_) => format!("({} / {})", l.s, r.s),
            Rem(_) => format!("(RFun.fmod {} {})", l.s, r.s),
            _ => return Err("float binop".into()),
        };
        return Ok(Tr::new(s, Ty::F64));
    }
    if both_int && cx.rng_mode && matches!(b.op, BitAnd(_) | Shr(_) | Shl(_)) {
        // `w & (2^k - 1)` is `w % 2^k`, `w >> k` is `w / 2^k` (conventions of Model/Rng.lean); unsigned words only
        let uns = matches!(&l.ty, Ty::Int(k) if unsigned(k));
        let c = const_int(&b.right).ok_or("bit operation with a non-literal right operand")?;
        if !uns {
            return Err("bit operation on a signed integer".into());
        }
        let s = match b.op {
            BitAnd(_) => {
                if c.checked_add(1).map(|m| m.is_power_of_two()).unwrap_or(false) {
                    format!("({} % {})", l.s, c + 1)
                } else {
                    return Err("bit-and with a mask that is not 2^k - 1".into());
                }
            }
            Shr(_) if c < 64 => format!("({} / {})", l.s, 1u128 << c),
            Shl(_) => match const_int(&Expr::Binary(b.clone())) {
                Some(v) if v < (1u128 << 64) => format!("({} : Int)", v),
                _ => return Err("left shift of a non-constant".into()),
            },
            _ => return Err("integer bit operation".into()),
        };
        return Ok(Tr::new(s, l.ty.clone()));
    }
    if both_int {
        let uns = matches!(&ty, Ty::Int(k) if unsigned(k));
        let s = match b.op {
            Add(_) => format!("({} + {})", l.s, r.s),
            Sub(_) => {
                if uns {
                    format!("(usub {} {})", l.s, r.s)
                } else {
                    format!("({} - {})", l.s, r.s)
                }
            }
            Mul(_) => format!("({} * {})", l.s, r.s),
            Div(_) => {
                if uns {
                    format!("(udiv {} {})", l.s, r.s)
                } else {
                    format!("(sdiv {} {})", l.s, r.s)
                }
            }
            Rem(_) => {
                if uns {
                    format!("(umod {} {})", l.s, r.s)
                } else {
                    format!("(smod {} {})", l.s, r.s)
                }
            }
            _ => return Err("integer bit operation".into()),
        };
        return Ok(Tr::new(s, ty));
    }
    Err(format!("binary op on {:?} and {:?}", l.ty, r.ty))
}

pub fn tr_if(cx: &mut Ctx, i: &ExprIf, expected: Option<&Ty>) -> R<Tr> {
    let els = i.else_branch.as_ref().ok_or("if without else as value")?;
    // if let
    if let Expr::Let(l) = strip(&i.cond) {
        let scrut = tr_expr(cx, &l.expr, None)?;
        cx.push();
        let pat = tr_pat(cx, &l.pat, &scrut.ty)?;
        let a = tr_block_value(cx, &i.then_branch, expected)?;
        cx.pop();
        let exp2 = expected.cloned().or(Some(a.ty.clone()));
        let b = tr_expr(cx, &els.1, exp2.as_ref())?;
        return Ok(Tr::new(format!("(match {} with\n | {} => {}\n | _ => {})", scrut.val(), pat, a.val(), b.val()), a.ty));
    }
    let c = tr_expr(cx, &i.cond, Some(&Ty::Bool))?;
    let n_pre = cx.prelude.len();
    let a = tr_block_value(cx, &i.then_branch, expected)?;
    let exp2 = expected.cloned().or(Some(a.ty.clone()));
    let b = tr_expr(cx, &els.1, exp2.as_ref())?;
    if cx.prelude.len() != n_pre {
        return Err("side effect (&mut call / iterator advance) inside a conditional expression".into());
    }
    let ty = if matches!(a.ty, Ty::Never | Ty::Unknown(_)) || a.ty == Ty::Int(IntK::Unk) { b.ty.clone() } else { a.ty.clone() };
    if ty == Ty::Bool {
        return Ok(Tr::prop(format!("(if {} then {} else {})", c.as_prop(), a.as_prop(), b.as_prop())));
    }
    Ok(Tr::new(format!("(if {} then {} else {})", c.as_prop(), a.val(), b.val()), ty))
}

/// Pattern → Lean pattern, binding variables in the current scope.
pub fn tr_pat(cx: &mut Ctx, p: &Pat, ty: &Ty) -> R<String> {
    match p {
        Pat::Wild(_) => Ok("_".into()),
        Pat::Ident(i) => {
            let n = i.ident.to_string();
            if n == "None" {
                return Ok("none".into());
            }
            // unit enum variant imported by name?
            if let Ty::Enum(en) = ty {
                if cx.idx.enums.get(en).map(|e| e.variants.contains(&n)).unwrap_or(false) {
                    return Ok(format!("{}.{}", en, lean_ident(&n)));
                }
            }
            if i.mutability.is_some() {
                cx.muts.insert(n.clone());
            }
            Ok(cx.bind(&n, ty.clone()))
        }
        Pat::Reference(r) => tr_pat(cx, &r.pat, ty),
        Pat::Paren(r) => tr_pat(cx, &r.pat, ty),
        Pat::Type(t) => {
            let ty2 = conv_type(&t.ty, &cx.tybind);
            tr_pat(cx, &t.pat, &ty2)
        }
        Pat::Tuple(t) => {
            let tys: Vec<Ty> = match ty {
                Ty::Tuple(ts) if ts.len() == t.elems.len() => ts.clone(),
                _ => return Err(format!("tuple pattern against {:?}", ty)),
            };
            let mut ps = vec![];
            for (e, et) in t.elems.iter().zip(tys.iter()) {
                ps.push(tr_pat(cx, e, et)?);
            }
            Ok(format!("({})", ps.join(", ")))
        }
        Pat::Lit(l) => match &l.lit {
            Lit::Int(i) => Ok(format!("{}", i.base10_digits())),
            Lit::Bool(b) => Ok(format!("{}", b.value)),
            _ => Err("literal pattern".into()),
        },
        Pat::Path(pp) => {
            let segs = path_segs(&pp.path);
            match cx.resolve(&segs) {
                Resolved::Variant(en, v) => Ok(format!("{}.{}", en, lean_ident(&v))),
                _ => Err(format!("path pattern {}", segs.join("::"))),
            }
        }
        Pat::TupleStruct(ts) => {
            let segs = path_segs(&ts.path);
            let last = segs.last().unwrap().as_str();
            let inner = ts.elems.first().ok_or("empty tuple-struct pattern")?;
            match (last, ty) {
                ("Some", Ty::Opt(t)) => Ok(format!("(some {})", tr_pat(cx, inner, t)?)),
                ("Ok", Ty::Res(t, _)) => Ok(format!("(.ok {})", tr_pat(cx, inner, t)?)),
                ("Err", Ty::Res(_, e)) => Ok(format!("(.error {})", tr_pat(cx, inner, e)?)),
                (v, Ty::Enum(en)) => {
                    let ei = cx.idx.enums.get(en).ok_or("enum")?.clone();
                    let i = ei.variants.iter().position(|x| x == v).ok_or("variant")?;
                    let pt = ei.payloads[i].clone().ok_or("payload")?;
                    Ok(format!("({}.{} {})", en, lean_ident(v), tr_pat(cx, inner, &pt)?))
                }
                _ => Err(format!("tuple-struct pattern {} against {:?}", last, ty)),
            }
        }
        Pat::Or(o) => {
            let mut ps = vec![];
            for c in &o.cases {
                ps.push(tr_pat(cx, c, ty)?);
            }
            Ok(ps.join(" | "))
        }
        Pat::Slice(s) => {
            let et = match ty {
                Ty::List(t) => (**t).clone(),
                _ => return Err("slice pattern on non-list".into()),
            };
            let mut ps = vec![];
            for e in &s.elems {
                if matches!(e, Pat::Rest(_)) {
                    return Err("rest pattern".into());
                }
                ps.push(tr_pat(cx, e, &et)?);
            }
            Ok(format!("[{}]", ps.join(", ")))
        }
        _ => Err(format!("unsupported pattern {}", p.to_token_stream())),
    }
}

fn tr_match(cx: &mut Ctx, m: &ExprMatch, expected: Option<&Ty>) -> R<Tr> {
    if m.arms.iter().any(|a| a.guard.is_some()) {
        // arms are integer literals or `_`, possibly guarded: an if-chain
        let scrut = tr_expr(cx, &m.expr, None)?;
        if !is_int(&scrut.ty) {
            return Err("match guard on non-integer scrutinee".into());
        }
        let mut conds: Vec<(Option<String>, Tr)> = vec![];
        let mut ty: Option<Ty> = expected.cloned();
        for arm in &m.arms {
            let pc = match &arm.pat {
                Pat::Wild(_) => None,
                Pat::Lit(l) => match &l.lit {
                    Lit::Int(i) => Some(format!("({} = ({} : Int))", scrut.s, i.base10_digits())),
                    _ => return Err("match guard with non-int literal".into()),
                },
                _ => return Err("match guard with binding pattern".into()),
            };
            let gc = match &arm.guard {
                Some((_, g)) => Some(tr_expr(cx, g, Some(&Ty::Bool))?.as_prop()),
                None => None,
            };
            let c = match (pc, gc) {
                (None, None) => None,
                (Some(a), None) => Some(a),
                (None, Some(b)) => Some(b),
                (Some(a), Some(b)) => Some(format!("({} ∧ {})", a, b)),
            };
            let n_pre = cx.prelude.len();
            let body = tr_expr(cx, &arm.body, ty.as_ref())?;
            if cx.prelude.len() != n_pre {
                return Err("side effect (&mut call / iterator advance) inside a match arm expression".into());
            }
            if ty.is_none() && !matches!(body.ty, Ty::Never) {
                ty = Some(body.ty.clone());
            }
            conds.push((c, body));
        }
        let mut out = String::from("panicV");
        for (c, b) in conds.into_iter().rev() {
            out = match c {
                None => b.val(),
                Some(c) => format!("(if {} then {} else {})", c, b.val(), out),
            };
        }
        return Ok(Tr::new(out, ty.unwrap_or(Ty::Unit)));
    }
    let scrut = tr_expr(cx, &m.expr, None)?;
    let pre = String::new(); // hoisted `iter.next()` bindings are emitted by the enclosing statement
    let mut ty: Option<Ty> = expected.cloned();
    let mut arms = vec![];
    for arm in &m.arms {
        cx.push();
        let pat = tr_pat(cx, &arm.pat, &scrut.ty)?;
        if arm.guard.is_some() {
            cx.pop();
            return Err("match guard".into());
        }
        let n_pre = cx.prelude.len();
        let body = tr_expr(cx, &arm.body, ty.as_ref());
        cx.pop();
        let body = body?;
        if cx.prelude.len() != n_pre {
            return Err("side effect (&mut call / iterator advance) inside a match arm expression".into());
        }
        if ty.is_none() && !matches!(body.ty, Ty::Never) {
            ty = Some(body.ty.clone());
        }
        arms.push(format!(" | {} => {}", pat, body.val()));
    }
    let ty = ty.unwrap_or(Ty::Unit);
    if !pre.is_empty() {
        return Ok(Tr::new(format!("(\n{}(match {} with\n{}))", pre, scrut.val(), arms.join("\n")), ty));
    }
    Ok(Tr::new(format!("(match {} with\n{})", scrut.val(), arms.join("\n")), ty))
}

pub fn call_fn(cx: &mut Ctx, key: &str, recv: Option<&Tr>, args: &Punctuated<Expr, Token![,]>) -> R<Tr> {
    let fi = cx.idx.fns.get(key).ok_or(format!("unknown fn {}", key))?.clone();
    if fi.generic {
        return Err(format!("call to generic fn {}", key));
    }
    if fi.self_kind == SelfKind::MutRef {
        return Err(format!("call to &mut self method {}", key));
    }
    if fi.params.len() != args.len() {
        return Err(format!("arity mismatch calling {}", key));
    }
    if fi.param_ref.iter().any(|r| *r == 2) {
        // `f(&mut x, …)`: hoist `let (r, x') := f x …` and rebind x
        let mut ss = vec![];
        if let Some(r) = recv {
            ss.push(r.val());
        }
        let mut outs = vec![];
        for (i, (a, (_, pty))) in args.iter().zip(fi.params.iter()).enumerate() {
            if let Ty::Fn(ins, out) = pty {
                let (f, _) = tr_closure(cx, a, ins, Some(out))?;
                ss.push(f);
                continue;
            }
            let v = tr_expr(cx, a, Some(pty))?;
            if fi.param_ref[i] == 2 {
                let place = match strip(a) {
                    Expr::Path(p) if p.path.segments.len() == 1 => p.path.segments[0].ident.to_string(),
                    _ => return Err("&mut argument is not a local".into()),
                };
                let ln = cx.lookup(&place).ok_or("&mut argument unknown")?.0;
                outs.push(ln);
            }
            ss.push(v.val());
        }
        cx.deps.insert(key.to_string());
        let tmp = cx.fresh("r");
        cx.prelude.push(format!("let ({}, {}) := ({} (α := α) {})\n", tmp, outs.join(", "), fi.lean_name, ss.join(" ")));
        return Ok(Tr::new(tmp, fi.ret.clone()));
    }
    let mut ss = vec![];
    if let Some(r) = recv {
        ss.push(r.val());
    }
    for (a, (_, pty)) in args.iter().zip(fi.params.iter()) {
        if let Ty::Fn(ins, out) = pty {
            let (f, _) = tr_closure(cx, a, ins, Some(out))?;
            ss.push(f);
            continue;
        }
        let v = tr_expr(cx, a, Some(pty))?;
        ss.push(v.val());
    }
    let in_function_layer = fi.module.len() >= 2 && fi.module[1] == "function";
    let head = if in_function_layer && !cx.f_layer && fi.self_ty.is_none() {
        cx.sf_calls.insert(key.to_string());
        format!("SF.{}", fi.name)
    } else {
        cx.deps.insert(key.to_string());
        format!("{} (α := α)", fi.lean_name)
    };
    Ok(Tr::new(format!("({} {})", head, ss.join(" ")).replace(" )", ")"), fi.ret.clone()))
}

/// `Distribution::<T>::sample(&d, rng)` for a crate distribution `d`: `T` from the expected type
pub fn call_sample(cx: &mut Ctx, d: &Tr, expected: Option<&Ty>, args: &Punctuated<Expr, Token![,]>) -> R<Tr> {
    let sn = match &d.ty {
        Ty::Struct(n) => n.clone(),
        t => return Err(format!("Distribution::sample on {:?}", t)),
    };
    let suffix = match expected {
        Some(Ty::F64) => "f64",
        Some(Ty::Int(IntK::U64)) => "u64",
        Some(Ty::Int(IntK::I64)) => "i64",
        Some(Ty::Int(IntK::Usize)) => "usize",
        Some(Ty::Bool) => "bool",
        _ => return Err("Distribution::sample with an unknown result type".into()),
    };
    let key = format!("{}::sample_{}", sn, suffix);
    if !cx.idx.fns.contains_key(&key) {
        return Err(format!("no sampler {}", key));
    }
    call_fn(cx, &key, Some(d), args)
}

/// call of a nested `fn` item lifted by `Stmt::Item(Item::Fn)`
fn call_local_fn(cx: &mut Ctx, fi: &FnInfo, args: &Punctuated<Expr, Token![,]>) -> R<Tr> {
    if fi.params.len() != args.len() {
        return Err(format!("arity mismatch calling {}", fi.name));
    }
    let mut ss = vec![];
    let mut outs = vec![];
    for (i, (a, (_, pty))) in args.iter().zip(fi.params.iter()).enumerate() {
        let v = tr_expr(cx, a, Some(pty))?;
        if fi.param_ref[i] == 2 {
            outs.push(v.s.clone());
        }
        ss.push(v.val());
    }
    let call = format!("({} (α := α) {})", fi.lean_name, ss.join(" "));
    if outs.is_empty() {
        return Ok(Tr::new(call, fi.ret.clone()));
    }
    let tmp = cx.fresh("r");
    cx.prelude.push(format!("let ({}, {}) := {}\n", tmp, outs.join(", "), call));
    Ok(Tr::new(tmp, fi.ret.clone()))
}

fn tr_call(cx: &mut Ctx, c: &ExprCall, expected: Option<&Ty>) -> R<Tr> {
    let p = match strip(&c.func) {
        Expr::Path(p) => p,
        _ => return Err("call of non-path".into()),
    };
    let segs = path_segs(&p.path);
    let last = segs.last().unwrap().as_str();
    if segs.len() == 1 && cx.lookup(last).is_none() {
        match last {
            "Some" => {
                let ex = match expected {
                    Some(Ty::Opt(t)) => Some((**t).clone()),
                    _ => None,
                };
                let v = tr_expr(cx, &c.args[0], ex.as_ref())?;
                return Ok(Tr::new(format!("(some {})", v.val()), Ty::Opt(Box::new(v.ty))));
            }
            "Ok" => {
                let (ex, et) = match expected {
                    Some(Ty::Res(t, e)) => (Some((**t).clone()), (**e).clone()),
                    _ => (None, Ty::Unknown("?".into())),
                };
                let v = tr_expr(cx, &c.args[0], ex.as_ref())?;
                return Ok(Tr::new(format!("(.ok {})", v.val()), Ty::Res(Box::new(v.ty), Box::new(et))));
            }
            "Err" => {
                let (ex, et) = match expected {
                    Some(Ty::Res(t, e)) => ((**t).clone(), Some((**e).clone())),
                    _ => (Ty::Unknown("?".into()), None),
                };
                let v = tr_expr(cx, &c.args[0], et.as_ref())?;
                return Ok(Tr::new(format!("(.error {})", v.val()), Ty::Res(Box::new(ex), Box::new(v.ty))));
            }
            _ => {}
        }
    }
    // generic numeric constructors
    if segs.len() == 2 && (last == "one" || last == "zero") {
        if let Some(t) = cx.tybind.get(&segs[0]).cloned() {
            let v = if last == "one" { 1 } else { 0 };
            return Ok(match t {
                Ty::F64 => Tr::new(format!("({}.0 : α)", v), Ty::F64),
                Ty::Int(k) => Tr::new(format!("({} : Int)", v), Ty::Int(k)),
                _ => return Err("T::one on odd type".into()),
            });
        }
    }
    if segs.len() >= 2 && segs[segs.len() - 2] == "f64" {
        match last {
            "from" => {
                let v = tr_expr(cx, &c.args[0], None)?;
                return cast(cx, &v, &Ty::F64);
            }
            "sqrt" | "floor" | "ln" | "exp" | "abs" | "ceil" => {
                let v = tr_expr(cx, &c.args[0], Some(&Ty::F64))?;
                return Ok(Tr::new(format!("(RFun.{} {})", last, v.s), Ty::F64));
            }
            _ => {}
        }
    }
    if (last == "min" || last == "max") && segs.len() >= 2 && segs[segs.len() - 2] == "cmp" {
        let a = tr_expr(cx, &c.args[0], Some(&Ty::Int(IntK::Unk)))?;
        let b = tr_expr(cx, &c.args[1], Some(&a.ty))?;
        return Ok(Tr::new(format!("(Min.{} {} {})", last, a.s, b.s).replace("Min.max", "Max.max"), a.ty));
    }
    if last == "clamp" && segs.len() >= 2 && segs[0] == "num_traits" {
        let x = tr_expr(cx, &c.args[0], Some(&Ty::F64))?;
        let lo = tr_expr(cx, &c.args[1], Some(&Ty::F64))?;
        let hi = tr_expr(cx, &c.args[2], Some(&Ty::F64))?;
        return Ok(Tr::new(format!("(ntClamp {} {} {})", x.s, lo.s, hi.s), Ty::F64));
    }
    if segs.len() == 2 && segs[0] == "Statistics" {
        let key = format!("IterStatistics::{}", last);
        if cx.idx.fns.contains_key(&key) {
            let recv = tr_expr(cx, &c.args[0], None)?;
            let rest: Punctuated<Expr, Token![,]> = c.args.iter().skip(1).cloned().collect();
            return call_fn(cx, &key, Some(&recv), &rest);
        }
    }
    if segs.len() == 2 && segs[0] == "OrderStatistics" && c.args.len() == 1 {
        // UFCS on a `&mut` place: rewrite to a method call
        let inner = match &c.args[0] {
            Expr::Reference(r) => (*r.expr).clone(),
            e => e.clone(),
        };
        let id = p.path.segments.last().unwrap().ident.clone();
        let mc: ExprMethodCall = syn::parse_quote!(#inner.#id());
        return crate::method::tr_method(cx, &mc, expected);
    }
    if segs.len() == 2 && segs[0] == "Vec" && (last == "new" || last == "with_capacity") {
        let t = expected.cloned().unwrap_or(Ty::List(Box::new(Ty::F64)));
        return Ok(Tr::new(format!("([] : {})", cx.lean_ty(&t)?), t));
    }
    if segs.len() == 2 && segs[0] == "NonZeroU64" && last == "new" {
        let v = tr_expr(cx, &c.args[0], Some(&Ty::Int(IntK::U64)))?;
        return Ok(Tr::new(format!("(if {} = 0 then none else some {})", v.s, v.s), Ty::Opt(Box::new(Ty::Int(IntK::U64)))));
    }
    if cx.rng_mode {
        // a nested `fn` of the function being translated
        if segs.len() == 1 && cx.lookup(last).is_none() {
            if let Some(fi) = cx.local_fns.get(last).cloned() {
                return call_local_fn(cx, &fi, &c.args);
            }
        }
        let full = cx.expand_first(&segs).unwrap_or(segs.clone());
        let is_rand = full.first().map(|x| x == "rand").unwrap_or(false);
        // `rand::distributions::Uniform::new_inclusive(lo, hi)` (f64): `none` = panic
        if is_rand && full.len() >= 2 && full[full.len() - 2] == "Uniform" && last == "new_inclusive" && c.args.len() == 2 {
            let lo = tr_expr(cx, &c.args[0], Some(&Ty::F64))?;
            let hi = tr_expr(cx, &c.args[1], Some(&Ty::F64))?;
            if lo.ty != Ty::F64 || hi.ty != Ty::F64 {
                return Err("rand Uniform over a non-f64 type".into());
            }
            cx.uses_rngfloat = true;
            let tmp = cx.fresh("q");
            let v = if cx.mut_self && cx.value_depth == 0 { cx.with_outs("panicV") } else { "panicV".to_string() };
            let r = if cx.loop_ctx.is_empty() || cx.value_depth > 0 { v } else { format!("(LoopR.ret {})", v) };
            cx.prelude.push(format!("match (Statrs.Model.uniformNewInclusive (α := α) {} {}) with\n | none => {}\n | some {} =>\n", lo.s, hi.s, r, tmp));
            return Ok(Tr::new(tmp, Ty::RandUniform));
        }
        // `rand::distributions::Distribution::sample(&d, rng)` (UFCS): the impl is chosen by the result type
        if is_rand && full.len() >= 2 && full[full.len() - 2] == "Distribution" && last == "sample" && c.args.len() == 2 {
            let d = tr_expr(cx, &c.args[0], None)?;
            let rest: Punctuated<Expr, Token![,]> = c.args.iter().skip(1).cloned().collect();
            return call_sample(cx, &d, expected, &rest);
        }
    }
    match cx.resolve(&segs) {
        Resolved::Fn(k) => call_fn(cx, &k, None, &c.args),
        Resolved::Local(ln) => {
            let (_, ty) = cx.lookup(&segs[0]).unwrap();
            if let Ty::Fn(ins, out) = ty {
                let mut ss = vec![];
                let mut rng_out: Option<String> = None;
                for (a, t) in c.args.iter().zip(ins.iter()) {
                    let v = tr_expr(cx, a, Some(t))?;
                    if *t == Ty::Rng {
                        if v.ty != Ty::Rng || rng_out.is_some() {
                            return Err("closure call: odd random-source argument".into());
                        }
                        rng_out = Some(v.s.clone());
                    }
                    ss.push(v.val());
                }
                if let Some(r) = rng_out {
                    // `z(rng, u)` with `Z: FnMut(&mut R, f64) -> f64`: value and advanced source
                    let tmp = cx.fresh("r");
                    cx.prelude.push(format!("let ({}, {}) := ({} {})\n", tmp, r, ln, ss.join(" ")));
                    return Ok(Tr::new(tmp, (*out).clone()));
                }
                return Ok(Tr::new(format!("({} {})", ln, ss.join(" ")), (*out).clone()));
            }
            Err("call of local closure".into())
        }
        Resolved::Variant(en, v) => {
            let ei = cx.idx.enums.get(&en).unwrap().clone();
            let i = ei.variants.iter().position(|x| *x == v).unwrap();
            let pt = ei.payloads[i].clone().ok_or("call of unit variant")?;
            let a = tr_expr(cx, &c.args[0], Some(&pt))?;
            Ok(Tr::new(format!("({}.{} {})", en, lean_ident(&v), a.val()), Ty::Enum(en)))
        }
        Resolved::Struct(sn) => {
            let si = cx.idx.structs.get(&sn).ok_or("struct")?.clone();
            if si.fields.len() != c.args.len() {
                return Err(format!("tuple-struct constructor arity {}", sn));
            }
            let mut fs = vec![];
            for (a, (fname, fty)) in c.args.iter().zip(si.fields.iter()) {
                let v = tr_expr(cx, a, Some(fty))?;
                fs.push(format!("f_{} := {}", fname, v.val()));
            }
            let ty = Ty::Struct(sn.clone());
            Ok(Tr::new(format!("({{ {} }} : {})", fs.join(", "), cx.lean_ty(&ty)?), ty))
        }
        _ => Err(format!("unresolved call {}", segs.join("::"))),
    }
}

pub fn parse_macro_args(mac: &Macro) -> R<Vec<Expr>> {
    let parser = Punctuated::<Expr, Token![,]>::parse_terminated;
    let p = mac.parse_body_with(parser).map_err(|e| format!("macro args: {}", e))?;
    Ok(p.into_iter().collect())
}

pub fn tr_macro(cx: &mut Ctx, mac: &Macro, expected: Option<&Ty>) -> R<Tr> {
    let name = mac.path.segments.last().unwrap().ident.to_string();
    match name.as_str() {
        "ulps_eq" | "relative_eq" | "abs_diff_eq" => {
            let args = parse_macro_args(mac)?;
            let a = tr_expr(cx, &args[0], Some(&Ty::F64))?;
            let b = tr_expr(cx, &args[1], Some(&Ty::F64))?;
            let mut eps: Option<String> = None;
            let mut max_rel: Option<String> = None;
            let mut max_ulps: Option<String> = None;
            for extra in &args[2..] {
                if let Expr::Assign(asg) = extra {
                    let k = asg.left.to_token_stream().to_string();
                    match k.as_str() {
                        "epsilon" => eps = Some(tr_expr(cx, &asg.right, Some(&Ty::F64))?.s),
                        "max_relative" => max_rel = Some(tr_expr(cx, &asg.right, Some(&Ty::F64))?.s),
                        "max_ulps" => max_ulps = Some(tr_expr(cx, &asg.right, Some(&Ty::Int(IntK::U32)))?.s),
                        _ => return Err(format!("approx option {}", k)),
                    }
                } else {
                    return Err("approx positional option".into());
                }
            }
            let s = match name.as_str() {
                "ulps_eq" => {
                    if eps.is_none() && max_ulps.is_none() {
                        format!("(RFun.ulpsEq {} {})", a.s, b.s)
                    } else {
                        return Err("ulps_eq! with options".into());
                    }
                }
                "relative_eq" => format!(
                    "(relativeEq {} {} {} {})",
                    a.s,
                    b.s,
                    eps.unwrap_or("(RFun.epsilon : α)".into()),
                    max_rel.unwrap_or("(RFun.epsilon : α)".into())
                ),
                _ => format!("(absDiffEq {} {} {})", a.s, b.s, eps.unwrap_or("(RFun.epsilon : α)".into())),
            };
            Ok(Tr::new(s, Ty::Bool))
        }
        "panic" | "unreachable" | "unimplemented" | "todo" => {
            let t = expected.cloned().unwrap_or(Ty::Never);
            Ok(Tr::new("panicV", t))
        }
        "vec" if mac.tokens.to_string().contains(';') => {
            let toks = mac.tokens.to_string();
            let arr: ExprRepeat = syn::parse_str(&format!("[{}]", toks)).map_err(|e| format!("vec![x; n]: {}", e))?;
            tr_expr(cx, &Expr::Repeat(arr), expected)
        }
        "vec" => {
            let args = parse_macro_args(mac)?;
            let ex = match expected {
                Some(Ty::List(t)) => Some((**t).clone()),
                _ => None,
            };
            let mut ss = vec![];
            let mut ty = ex;
            for a in &args {
                let v = tr_expr(cx, a, ty.as_ref())?;
                if ty.is_none() {
                    ty = Some(v.ty.clone());
                }
                ss.push(v.val());
            }
            let ty = ty.ok_or("empty vec!")?;
            Ok(Tr::new(format!("([{}] : {})", ss.join(", "), cx.lean_ty(&Ty::List(Box::new(ty.clone())))?), Ty::List(Box::new(ty))))
        }
        _ => Err(format!("macro {}!", name)),
    }
}

/// Translate a closure given its parameter types. Returns ("fun a b => body", ret type).
pub fn tr_closure(cx: &mut Ctx, e: &Expr, ptys: &[Ty], exp_ret: Option<&Ty>) -> R<(String, Ty)> {
    let c = match strip(e) {
        Expr::Closure(c) => c,
        Expr::Path(p) => {
            // function path used as closure, e.g. `.map(f64::ln)`; unsupported except simple crate fns
            let segs = path_segs(&p.path);
            if segs.len() == 1 && cx.lookup(&segs[0]).is_none() {
                if let Some(fi) = cx.local_fns.get(&segs[0]).cloned() {
                    if fi.params.len() != ptys.len() || fi.params.iter().zip(ptys.iter()).any(|((_, a), b)| a != b) {
                        return Err(format!("nested fn {} passed at a different type", segs[0]));
                    }
                    return Ok((format!("({} (α := α))", fi.lean_name), fi.ret.clone()));
                }
            }
            if let Resolved::Fn(k) = cx.resolve(&segs) {
                let fi = cx.idx.fns.get(&k).unwrap().clone();
                cx.deps.insert(k.clone());
                return Ok((format!("({} (α := α))", fi.lean_name), fi.ret.clone()));
            }
            return Err("path as closure".into());
        }
        _ => return Err("expected closure".into()),
    };
    if c.inputs.len() != ptys.len() {
        return Err(format!("closure arity {} vs {}", c.inputs.len(), ptys.len()));
    }
    cx.push();
    let saved_prelude = std::mem::take(&mut cx.prelude);
    let mut ps = vec![];
    let mut pre = String::new();
    for (p, t) in c.inputs.iter().zip(ptys.iter()) {
        match p {
            Pat::Ident(_) | Pat::Wild(_) | Pat::Type(_) => {
                let s = tr_pat(cx, p, t)?;
                ps.push(s);
            }
            Pat::Reference(r) if matches!(&*r.pat, Pat::Ident(_) | Pat::Wild(_)) => {
                let s = tr_pat(cx, &r.pat, t)?;
                ps.push(s);
            }
            _ => {
                let tmp = cx.fresh("p");
                let s = tr_pat(cx, p, t)?;
                pre.push_str(&format!("match {} with | {} => ", tmp, s));
                ps.push(tmp);
            }
        }
    }
    let body = tr_expr(cx, &c.body, exp_ret);
    cx.pop();
    let inner_pre = std::mem::replace(&mut cx.prelude, saved_prelude);
    let body = body?;
    if !inner_pre.is_empty() {
        return Err("iterator .next() inside a closure".into());
    }
    let ps: Vec<String> = ps.into_iter().map(|p| if p == "_" { "_".into() } else { p }).collect();
    Ok((format!("(fun {} => {}{})", ps.join(" "), pre, body.val()), body.ty))
}
