//! Crate loading and indexing: modules, structs, enums, consts, fns, impls, traits, `use` maps.
use std::collections::{BTreeMap, HashMap};
use std::path::{Path, PathBuf};
use syn::*;

#[derive(Clone, Debug, PartialEq, Eq, Hash, PartialOrd, Ord)]
pub enum IntK {
    U64,
    I64,
    Usize,
    I32,
    U32,
    Isize,
    U8,
    Unk,
}

#[derive(Clone, Debug, PartialEq, Eq, Hash)]
pub enum Ty {
    F64,
    F32,
    Int(IntK),
    Bool,
    Unit,
    Str,
    Opt(Box<Ty>),
    Res(Box<Ty>, Box<Ty>),
    Struct(String),
    Enum(String),
    List(Box<Ty>),
    Tuple(Vec<Ty>),
    Iter(Box<Ty>),
    Never,
    Fn(Vec<Ty>, Box<Ty>),
    /// the random source of a sampler (`R: rand::Rng`, always behind `&mut`): `Statrs.Model.Rng`
    Rng,
    /// `rand::distributions::Uniform<f64>`: `Statrs.Model.UniformFloat α`
    RandUniform,
    Unknown(String),
}

#[derive(Clone)]
pub struct StructInfo {
    pub name: String,
    pub module: Vec<String>,
    pub fields: Vec<(String, Ty)>,
    pub has_float: bool,
    pub file: String,
    pub line: usize,
    pub supported: bool,
}

#[derive(Clone)]
pub struct EnumInfo {
    pub name: String,
    pub module: Vec<String>,
    pub variants: Vec<String>,
    pub payloads: Vec<Option<Ty>>,
    pub plain: bool,
    pub file: String,
}

#[derive(Clone, PartialEq, Eq, Debug)]
pub enum SelfKind {
    None,
    Ref,
    MutRef,
    Value,
}

#[derive(Clone)]
pub struct FnInfo {
    pub key: String,           // unique key: "crate::function::gamma::ln_gamma" or "Type::method"
    pub lean_name: String,     // "F.gamma.ln_gamma" / "Exp.cdf"
    pub module: Vec<String>,   // module the fn is defined in
    pub name: String,
    pub self_kind: SelfKind,
    pub self_ty: Option<String>,
    pub trait_name: Option<String>,
    pub trait_args: Vec<Ty>,
    pub params: Vec<(Pat, Ty)>,
    pub ret: Ty,
    pub body: Block,
    pub generic: bool,
    pub is_pub: bool,
    pub file: String,
    pub line: usize,
    pub from_trait_default: bool,
    pub tybind: HashMap<String, Ty>,
    pub cfg_rand: bool,
    pub param_ref: Vec<u8>, // 0 = by value, 1 = &, 2 = &mut
    /// generic only over the random source (`R: Rng`) and closure types: translated with an explicit `Rng` state
    pub rng_generic: bool,
}

#[derive(Clone)]
pub struct ConstInfo {
    pub key: String,
    pub lean_name: String,
    pub module: Vec<String>,
    pub name: String,
    pub ty: Ty,
    pub expr: Expr,
    pub file: String,
    pub line: usize,
}

#[derive(Clone)]
pub struct TraitInfo {
    pub name: String,
    pub module: Vec<String>,
    pub generics: Vec<String>,
    pub defaults: Vec<ImplItemLike>,
    pub file: String,
}

#[derive(Clone)]
pub struct ImplItemLike {
    pub sig: Signature,
    pub block: Block,
}

pub struct ModInfo {
    pub path: Vec<String>,
    pub file: String,
    pub uses: HashMap<String, Vec<String>>, // alias -> full path segments
    pub globs: Vec<Vec<String>>,
}

pub struct Index {
    pub mods: BTreeMap<String, ModInfo>,
    pub structs: BTreeMap<String, StructInfo>,
    pub enums: BTreeMap<String, EnumInfo>,
    pub fns: BTreeMap<String, FnInfo>,
    pub consts: BTreeMap<String, ConstInfo>,
    pub traits: BTreeMap<String, TraitInfo>,
    pub fn_by_name: HashMap<String, Vec<String>>,
    pub const_by_name: HashMap<String, Vec<String>>,
    pub aliases: BTreeMap<String, Ty>,
}

pub fn join(p: &[String]) -> String {
    p.join("::")
}

fn has_cfg_test(attrs: &[Attribute]) -> bool {
    attrs.iter().any(|a| {
        // `#[test]` functions outside a `#[cfg(test)]` module are test code too (categorical.rs has two)
        if a.path().is_ident("test") {
            return true;
        }
        if a.path().is_ident("cfg") {
            let s = quote::ToTokens::to_token_stream(a).to_string();
            s.contains("test")
        } else {
            false
        }
    })
}
fn has_cfg_rand(attrs: &[Attribute]) -> bool {
    attrs.iter().any(|a| {
        if a.path().is_ident("cfg") {
            let s = quote::ToTokens::to_token_stream(a).to_string();
            s.contains("\"rand\"")
        } else {
            false
        }
    })
}

pub fn layer_prefix(module: &[String]) -> String {
    // crate::function::gamma -> F.gamma ; crate::distribution::gamma -> D.gamma
    let m: Vec<&str> = module.iter().map(|s| s.as_str()).collect();
    match m.as_slice() {
        ["crate", "function", rest @ ..] => format!("F.{}", rest.join(".")),
        ["crate", "distribution", rest @ ..] => format!("D.{}", rest.join(".")),
        ["crate", "stats_tests", rest @ ..] => format!("T.{}", rest.join(".")),
        ["crate", "statistics", rest @ ..] => format!("S.{}", rest.join(".")),
        ["crate", rest @ ..] => format!("R.{}", rest.join(".")),
        _ => m.join("."),
    }
}

pub fn conv_type(t: &Type, bind: &HashMap<String, Ty>) -> Ty {
    match t {
        Type::Path(tp) => {
            let segs: Vec<String> = tp.path.segments.iter().map(|s| s.ident.to_string()).collect();
            let last = tp.path.segments.last().unwrap();
            let name = last.ident.to_string();
            let args: Vec<Ty> = match &last.arguments {
                PathArguments::AngleBracketed(a) => a
                    .args
                    .iter()
                    .filter_map(|g| match g {
                        GenericArgument::Type(t) => Some(conv_type(t, bind)),
                        _ => None,
                    })
                    .collect(),
                _ => vec![],
            };
            if segs.len() == 1 {
                if let Some(b) = bind.get(&name) {
                    return b.clone();
                }
            }
            match name.as_str() {
                "f64" => Ty::F64,
                "f32" => Ty::F32,
                "u64" => Ty::Int(IntK::U64),
                "i64" => Ty::Int(IntK::I64),
                "usize" => Ty::Int(IntK::Usize),
                "isize" => Ty::Int(IntK::I64),
                "NonZeroU64" => Ty::Int(IntK::U64),
                "i32" => Ty::Int(IntK::I32),
                "u32" => Ty::Int(IntK::U32),
                "u8" => Ty::Int(IntK::U8),
                "bool" => Ty::Bool,
                "str" | "String" => Ty::Str,
                "Option" if args.len() == 1 => Ty::Opt(Box::new(args[0].clone())),
                "Result" if args.len() == 2 => Ty::Res(Box::new(args[0].clone()), Box::new(args[1].clone())),
                "Vec" if args.len() == 1 => Ty::List(Box::new(args[0].clone())),
                "Iter" if args.len() == 1 && segs.iter().any(|s| s == "slice") => Ty::Iter(Box::new(args[0].clone())),
                "Self" => bind.get("Self").cloned().unwrap_or(Ty::Unknown("Self".into())),
                _ => Ty::Unknown(quote::ToTokens::to_token_stream(t).to_string()),
            }
        }
        Type::Reference(r) => conv_type(&r.elem, bind),
        Type::ImplTrait(it) => {
            for b in &it.bounds {
                if let TypeParamBound::Trait(tb) = b {
                    let last = tb.path.segments.last().unwrap();
                    if last.ident == "Fn" || last.ident == "FnMut" {
                        if let PathArguments::Parenthesized(pa) = &last.arguments {
                            let ins: Vec<Ty> = pa.inputs.iter().map(|t| conv_type(t, bind)).collect();
                            let out = match &pa.output {
                                ReturnType::Type(_, t) => conv_type(t, bind),
                                ReturnType::Default => Ty::Unit,
                            };
                            return Ty::Fn(ins, Box::new(out));
                        }
                    }
                }
            }
            Ty::Unknown(quote::ToTokens::to_token_stream(t).to_string())
        }
        Type::Slice(s) => Ty::List(Box::new(conv_type(&s.elem, bind))),
        Type::Array(a) => Ty::List(Box::new(conv_type(&a.elem, bind))),
        Type::Tuple(t) => {
            if t.elems.is_empty() {
                Ty::Unit
            } else {
                Ty::Tuple(t.elems.iter().map(|e| conv_type(e, bind)).collect())
            }
        }
        Type::Paren(p) => conv_type(&p.elem, bind),
        Type::Never(_) => Ty::Never,
        _ => Ty::Unknown(quote::ToTokens::to_token_stream(t).to_string()),
    }
}

impl Index {
    pub fn fix_types(&mut self) {
        // second pass: Unknown("Name") that is a struct/enum -> Struct/Enum
        let snames: Vec<String> = self.structs.keys().cloned().collect();
        let enames: Vec<String> = self.enums.keys().cloned().collect();
        let aliases = self.aliases.clone();
        let al = &aliases;
        fn fix(t: &mut Ty, s: &[String], e: &[String], al: &BTreeMap<String, Ty>) {
            match t {
                Ty::Unknown(n) => {
                    let base = n.split('<').next().unwrap().trim().rsplit("::").next().unwrap().trim().to_string();
                    if s.contains(&base) {
                        *t = Ty::Struct(base);
                    } else if e.contains(&base) {
                        *t = Ty::Enum(base);
                    } else if let Some(a) = al.get(&base) {
                        *t = a.clone();
                    }
                }
                Ty::Opt(a) | Ty::List(a) | Ty::Iter(a) => fix(a, s, e, al),
                Ty::Res(a, b) => {
                    fix(a, s, e, al);
                    fix(b, s, e, al)
                }
                Ty::Tuple(v) => v.iter_mut().for_each(|x| fix(x, s, e, al)),
                Ty::Fn(ins, out) => {
                    ins.iter_mut().for_each(|x| fix(x, s, e, al));
                    fix(out, s, e, al)
                }
                _ => {}
            }
        }
        for f in self.fns.values_mut() {
            for (_, t) in f.params.iter_mut() {
                fix(t, &snames, &enames, al);
            }
            fix(&mut f.ret, &snames, &enames, al);
            for t in f.trait_args.iter_mut() {
                fix(t, &snames, &enames, al);
            }
            for t in f.tybind.values_mut() {
                fix(t, &snames, &enames, al);
            }
        }
        for s in self.structs.values_mut() {
            for (_, t) in s.fields.iter_mut() {
                fix(t, &snames, &enames, al);
            }
        }
        for c in self.consts.values_mut() {
            fix(&mut c.ty, &snames, &enames, al);
        }
        for e in self.enums.values_mut() {
            for p in e.payloads.iter_mut().flatten() {
                fix(p, &snames, &enames, al);
            }
        }
        // struct support / has_float (iterate to fixpoint)
        for _ in 0..4 {
            let snapshot: HashMap<String, (bool, bool)> =
                self.structs.iter().map(|(k, v)| (k.clone(), (v.has_float, v.supported))).collect();
            for s in self.structs.values_mut() {
                fn scan(t: &Ty, snap: &HashMap<String, (bool, bool)>) -> (bool, bool) {
                    match t {
                        Ty::F64 => (true, true),
                        Ty::Int(_) | Ty::Bool | Ty::Unit | Ty::Enum(_) => (false, true),
                        Ty::Opt(a) | Ty::List(a) => scan(a, snap),
                        Ty::Tuple(v) => v.iter().fold((false, true), |acc, x| {
                            let r = scan(x, snap);
                            (acc.0 || r.0, acc.1 && r.1)
                        }),
                        Ty::Struct(n) => snap.get(n).cloned().unwrap_or((false, false)),
                        _ => (false, false),
                    }
                }
                let mut hf = false;
                let mut sup = true;
                for (_, t) in &s.fields {
                    let r = scan(t, &snapshot);
                    hf |= r.0;
                    sup &= r.1;
                }
                s.has_float = hf;
                s.supported = sup;
            }
        }
    }
}

pub fn load(src: &Path) -> Index {
    let mut idx = Index {
        mods: BTreeMap::new(),
        structs: BTreeMap::new(),
        enums: BTreeMap::new(),
        fns: BTreeMap::new(),
        consts: BTreeMap::new(),
        traits: BTreeMap::new(),
        fn_by_name: HashMap::new(),
        const_by_name: HashMap::new(),
        aliases: BTreeMap::new(),
    };
    let mut files: Vec<PathBuf> = vec![];
    fn walk(d: &Path, out: &mut Vec<PathBuf>) {
        let mut ents: Vec<_> = std::fs::read_dir(d).unwrap().map(|e| e.unwrap().path()).collect();
        ents.sort();
        for p in ents {
            if p.is_dir() {
                walk(&p, out);
            } else if p.extension().map(|e| e == "rs").unwrap_or(false) {
                out.push(p);
            }
        }
    }
    walk(src, &mut files);
    // first pass: traits (needed for default-method synthesis), then everything else
    let mut parsed: Vec<(Vec<String>, String, File)> = vec![];
    for f in &files {
        let rel = f.strip_prefix(src).unwrap();
        let mut segs: Vec<String> = vec!["crate".into()];
        for c in rel.components() {
            let s = c.as_os_str().to_str().unwrap().to_string();
            segs.push(s);
        }
        let last = segs.pop().unwrap();
        let stem = last.trim_end_matches(".rs").to_string();
        if stem != "mod" && stem != "lib" {
            segs.push(stem);
        }
        let text = std::fs::read_to_string(f).unwrap();
        let ast = match syn::parse_file(&text) {
            Ok(a) => a,
            Err(e) => {
                eprintln!("parse error in {:?}: {}", f, e);
                continue;
            }
        };
        let relname = format!("src/{}", rel.to_str().unwrap());
        parsed.push((segs, relname, ast));
    }
    for (segs, relname, ast) in &parsed {
        index_items(&mut idx, segs, relname, &ast.items, true);
    }
    for (segs, relname, ast) in &parsed {
        index_items(&mut idx, segs, relname, &ast.items, false);
    }
    idx.fix_types();
    for (k, f) in &idx.fns {
        idx.fn_by_name.entry(f.name.clone()).or_default().push(k.clone());
    }
    for (k, c) in &idx.consts {
        idx.const_by_name.entry(c.name.clone()).or_default().push(k.clone());
    }
    idx
}

fn use_tree(prefix: &mut Vec<String>, t: &UseTree, m: &mut ModInfo) {
    match t {
        UseTree::Path(p) => {
            prefix.push(p.ident.to_string());
            use_tree(prefix, &p.tree, m);
            prefix.pop();
        }
        UseTree::Name(n) => {
            let name = n.ident.to_string();
            let mut full = prefix.clone();
            if name != "self" {
                full.push(name.clone());
                m.uses.insert(name, full);
            } else if let Some(l) = prefix.last() {
                m.uses.insert(l.clone(), full);
            }
        }
        UseTree::Rename(r) => {
            let mut full = prefix.clone();
            full.push(r.ident.to_string());
            m.uses.insert(r.rename.to_string(), full);
        }
        UseTree::Glob(_) => m.globs.push(prefix.clone()),
        UseTree::Group(g) => {
            for i in &g.items {
                use_tree(prefix, i, m);
            }
        }
    }
}

pub fn collect_uses(items: &[Item], m: &mut ModInfo) {
    for it in items {
        if let Item::Use(u) = it {
            let mut p = vec![];
            use_tree(&mut p, &u.tree, m);
        }
    }
}

fn self_type_name(t: &Type) -> Option<String> {
    match t {
        Type::Path(tp) => Some(tp.path.segments.last()?.ident.to_string()),
        Type::Reference(r) => self_type_name(&r.elem),
        _ => None,
    }
}

fn index_items(idx: &mut Index, module: &[String], file: &str, items: &[Item], traits_pass: bool) {
    let mkey = join(module);
    if traits_pass {
        let mut mi = ModInfo { path: module.to_vec(), file: file.to_string(), uses: HashMap::new(), globs: vec![] };
        collect_uses(items, &mut mi);
        idx.mods.insert(mkey.clone(), mi);
    }
    for it in items {
        match it {
            Item::Mod(m) => {
                if has_cfg_test(&m.attrs) {
                    continue;
                }
                if let Some((_, sub)) = &m.content {
                    let mut p = module.to_vec();
                    p.push(m.ident.to_string());
                    index_items(idx, &p, file, sub, traits_pass);
                }
            }
            Item::Trait(t) if traits_pass => {
                let mut defaults = vec![];
                for ti in &t.items {
                    if let TraitItem::Fn(f) = ti {
                        if let Some(b) = &f.default {
                            defaults.push(ImplItemLike { sig: f.sig.clone(), block: b.clone() });
                        }
                    }
                }
                let generics = t
                    .generics
                    .params
                    .iter()
                    .filter_map(|g| match g {
                        GenericParam::Type(tp) => Some(tp.ident.to_string()),
                        _ => None,
                    })
                    .collect();
                idx.traits.insert(
                    t.ident.to_string(),
                    TraitInfo { name: t.ident.to_string(), module: module.to_vec(), generics, defaults, file: file.to_string() },
                );
            }
            Item::Struct(s) if traits_pass => {
                let mut fields = vec![];
                let bind = HashMap::new();
                match &s.fields {
                    Fields::Named(n) => {
                        for f in &n.named {
                            fields.push((f.ident.as_ref().unwrap().to_string(), conv_type(&f.ty, &bind)));
                        }
                    }
                    Fields::Unnamed(u) => {
                        for (i, f) in u.unnamed.iter().enumerate() {
                            fields.push((format!("{}", i), conv_type(&f.ty, &bind)));
                        }
                    }
                    Fields::Unit => {}
                }
                let mut generic = !s.generics.params.is_empty();
                if s.ident == "Data" && generic {
                    // `Data<D: AsRef<[f64]> + AsMut<[f64]>>(D)` is modelled as a wrapper around a list of f64
                    generic = false;
                    fields = vec![("0".to_string(), Ty::List(Box::new(Ty::F64)))];
                }
                idx.structs.insert(
                    s.ident.to_string(),
                    StructInfo {
                        name: s.ident.to_string(),
                        module: module.to_vec(),
                        fields,
                        has_float: false,
                        file: file.to_string(),
                        line: s.ident.span().start().line,
                        supported: !generic,
                    },
                );
                if generic {
                    // generic structs (Data<D>, MultivariateNormal<D>, ...) are hand-modelled
                    idx.structs.get_mut(&s.ident.to_string()).unwrap().fields.push(("__generic".into(), Ty::Unknown("generic".into())));
                }
            }
            Item::Type(t) if traits_pass && t.generics.params.is_empty() => {
                let ty = conv_type(&t.ty, &HashMap::new());
                if !matches!(ty, Ty::Unknown(_)) {
                    idx.aliases.insert(t.ident.to_string(), ty);
                }
            }
            Item::Enum(e) if traits_pass => {
                let plain = e.variants.iter().all(|v| match &v.fields {
                    Fields::Unit => true,
                    Fields::Unnamed(u) => u.unnamed.len() == 1,
                    _ => false,
                });
                let payloads: Vec<Option<Ty>> = e
                    .variants
                    .iter()
                    .map(|v| match &v.fields {
                        Fields::Unnamed(u) if u.unnamed.len() == 1 => Some(conv_type(&u.unnamed[0].ty, &HashMap::new())),
                        _ => None,
                    })
                    .collect();
                idx.enums.insert(
                    e.ident.to_string(),
                    EnumInfo {
                        name: e.ident.to_string(),
                        module: module.to_vec(),
                        variants: e.variants.iter().map(|v| v.ident.to_string()).collect(),
                        payloads,
                        plain,
                        file: file.to_string(),
                    },
                );
            }
            Item::Const(c) if !traits_pass => {
                let bind = HashMap::new();
                let key = format!("{}::{}", mkey, c.ident);
                idx.consts.insert(
                    key.clone(),
                    ConstInfo {
                        key,
                        lean_name: format!("{}.{}", layer_prefix(module), c.ident),
                        module: module.to_vec(),
                        name: c.ident.to_string(),
                        ty: conv_type(&c.ty, &bind),
                        expr: (*c.expr).clone(),
                        file: file.to_string(),
                        line: c.ident.span().start().line,
                    },
                );
            }
            Item::Static(c) if !traits_pass => {
                let bind = HashMap::new();
                let key = format!("{}::{}", mkey, c.ident);
                idx.consts.insert(
                    key.clone(),
                    ConstInfo {
                        key,
                        lean_name: format!("{}.{}", layer_prefix(module), c.ident),
                        module: module.to_vec(),
                        name: c.ident.to_string(),
                        ty: conv_type(&c.ty, &bind),
                        expr: (*c.expr).clone(),
                        file: file.to_string(),
                        line: c.ident.span().start().line,
                    },
                );
            }
            Item::Fn(f) if !traits_pass => {
                if has_cfg_test(&f.attrs) {
                    continue;
                }
                let fi = mk_fn(module, file, None, None, vec![], &f.sig, &f.block, matches!(f.vis, Visibility::Public(_)), &HashMap::new(), false, has_cfg_rand(&f.attrs));
                idx.fns.insert(fi.key.clone(), fi);
            }
            Item::Impl(im) if !traits_pass => {
                if has_cfg_test(&im.attrs) {
                    continue;
                }
                let cfg_rand = has_cfg_rand(&im.attrs);
                let sty = match self_type_name(&im.self_ty) {
                    Some(s) => s,
                    None => continue,
                };
                let mut impl_generic = !im.generics.params.is_empty();
                let mut bind: HashMap<String, Ty> = HashMap::new();
                let mut self_conv = conv_type(&im.self_ty, &HashMap::new());
                let mut sty = sty;
                // `impl<T: IntoIterator<Item: Borrow<f64>>> Statistics<f64> for T` — modelled on lists of f64
                let is_iter_stats = impl_generic
                    && sty == "T"
                    && im.trait_.as_ref().map(|(_, p, _)| p.segments.last().unwrap().ident == "Statistics").unwrap_or(false);
                if is_iter_stats {
                    impl_generic = false;
                    self_conv = Ty::List(Box::new(Ty::F64));
                    sty = "IterStatistics".to_string();
                }
                if sty == "Data" && impl_generic {
                    impl_generic = false;
                    self_conv = Ty::Struct("Data".into());
                }
                let self_ty_resolved = match &self_conv {
                    Ty::Unknown(_) => {
                        if idx.enums.contains_key(&sty) {
                            Ty::Enum(sty.clone())
                        } else {
                            Ty::Struct(sty.clone())
                        }
                    }
                    t => t.clone(),
                };
                if sty == "Data" {
                    bind.insert("D".into(), Ty::List(Box::new(Ty::F64)));
                }
                bind.insert("Self".into(), self_ty_resolved);
                let (trait_name, trait_args): (Option<String>, Vec<Ty>) = match &im.trait_ {
                    Some((_, p, _)) => {
                        let last = p.segments.last().unwrap();
                        let args = match &last.arguments {
                            PathArguments::AngleBracketed(a) => a
                                .args
                                .iter()
                                .filter_map(|g| match g {
                                    GenericArgument::Type(t) => Some(conv_type(t, &bind)),
                                    _ => None,
                                })
                                .collect(),
                            _ => vec![],
                        };
                        let is_rand = p.segments.iter().any(|s| s.ident == "rand");
                        let tn = if is_rand { format!("Rand{}", last.ident) } else { last.ident.to_string() };
                        (Some(tn), args)
                    }
                    None => (None, vec![]),
                };
                if let Some(tn) = &trait_name {
                    if matches!(tn.as_str(), "Display" | "Error" | "Debug") {
                        continue;
                    }
                }
                let mut have: Vec<String> = vec![];
                for ii in &im.items {
                    if let ImplItem::Fn(f) = ii {
                        if has_cfg_test(&f.attrs) {
                            continue;
                        }
                        have.push(f.sig.ident.to_string());
                        let mut fi = mk_fn(
                            module,
                            file,
                            Some(sty.clone()),
                            trait_name.clone(),
                            trait_args.clone(),
                            &f.sig,
                            &f.block,
                            matches!(f.vis, Visibility::Public(_)) || trait_name.is_some(),
                            &bind,
                            false,
                            cfg_rand,
                        );
                        fi.generic |= impl_generic;
                        // disambiguate rand::Distribution<T>::sample by output type
                        if trait_name.as_deref() == Some("RandDistribution") && fi.name == "sample" {
                            let suffix = match trait_args.get(0) {
                                Some(Ty::F64) => "f64",
                                Some(Ty::Int(IntK::U64)) => "u64",
                                Some(Ty::Int(IntK::I64)) => "i64",
                                Some(Ty::Int(IntK::Usize)) => "usize",
                                Some(Ty::Bool) => "bool",
                                _ => "other",
                            };
                            fi.key = format!("{}::sample_{}", sty, suffix);
                            fi.lean_name = format!("{}.sample_{}", sty, suffix);
                        }
                        // Modulus for primitive types
                        if idx.fns.contains_key(&fi.key) {
                            // keep first, add suffixed
                            fi.key = format!("{}#{}", fi.key, trait_name.clone().unwrap_or_default());
                            fi.lean_name = format!("{}_{}", fi.lean_name, trait_name.clone().unwrap_or_default());
                        }
                        idx.fns.insert(fi.key.clone(), fi);
                    }
                }
                // synthesize trait default methods
                if let Some(tn) = &trait_name {
                    if let Some(ti) = idx.traits.get(tn).cloned() {
                        let mut b2 = bind.clone();
                        for (g, a) in ti.generics.iter().zip(trait_args.iter()) {
                            b2.insert(g.clone(), a.clone());
                        }
                        for d in &ti.defaults {
                            let n = d.sig.ident.to_string();
                            if have.contains(&n) {
                                continue;
                            }
                            let mut fi = mk_fn(&ti.module, file, Some(sty.clone()), Some(tn.clone()), trait_args.clone(), &d.sig, &d.block, true, &b2, true, cfg_rand);
                            fi.generic |= impl_generic;
                            fi.module = ti.module.clone();
                            if !idx.fns.contains_key(&fi.key) {
                                idx.fns.insert(fi.key.clone(), fi);
                            }
                        }
                    }
                }
            }
            _ => {}
        }
    }
}

#[allow(clippy::too_many_arguments)]
pub fn mk_fn(
    module: &[String],
    file: &str,
    self_ty: Option<String>,
    trait_name: Option<String>,
    trait_args: Vec<Ty>,
    sig: &Signature,
    block: &Block,
    is_pub: bool,
    bind: &HashMap<String, Ty>,
    from_default: bool,
    cfg_rand: bool,
) -> FnInfo {
    let name = sig.ident.to_string();
    let mut self_kind = SelfKind::None;
    let mut params = vec![];
    let mut param_ref: Vec<u8> = vec![];
    for a in &sig.inputs {
        match a {
            FnArg::Receiver(r) => {
                self_kind = if r.reference.is_some() {
                    if r.mutability.is_some() {
                        SelfKind::MutRef
                    } else {
                        SelfKind::Ref
                    }
                } else {
                    SelfKind::Value
                };
            }
            FnArg::Typed(pt) => {
                params.push(((*pt.pat).clone(), conv_type(&pt.ty, bind)));
                param_ref.push(match &*pt.ty {
                    Type::Reference(r) if r.mutability.is_some() => 2,
                    Type::Reference(r) if matches!(&*r.elem, Type::Array(_)) => 3,
                    Type::Reference(_) => 1,
                    _ => 0,
                });
            }
        }
    }
    let ret = match &sig.output {
        ReturnType::Default => Ty::Unit,
        ReturnType::Type(_, t) => conv_type(t, bind),
    };
    let mut generic = sig.generics.params.iter().any(|g| matches!(g, GenericParam::Type(_)));
    let mkey = join(module);
    let mut bind2 = bind.clone();
    let mut params = params;
    let mut ret = ret;
    if name == "integral_bisection_search" && self_ty.is_none() {
        // generic over the lattice type K (u64/i64 → Int) and the value type T (f64)
        generic = false;
        bind2.insert("K".into(), Ty::Int(IntK::I64));
        bind2.insert("T".into(), Ty::F64);
        params.clear();
        for a in &sig.inputs {
            if let FnArg::Typed(pt) = a {
                params.push(((*pt.pat).clone(), conv_type(&pt.ty, &bind2)));
            }
        }
        ret = match &sig.output {
            ReturnType::Default => Ty::Unit,
            ReturnType::Type(_, t) => conv_type(t, &bind2),
        };
    }
    // generic only over the random source (`R: Rng + ?Sized`) and closure types (`P: FnMut(f64) -> f64`,
    // `Z: FnMut(&mut R, f64) -> f64`): the type parameters are bound to `Ty::Rng` / `Ty::Fn`
    let mut rng_generic = false;
    if generic {
        let tparams: Vec<&TypeParam> = sig
            .generics
            .params
            .iter()
            .filter_map(|g| match g {
                GenericParam::Type(t) => Some(t),
                _ => None,
            })
            .collect();
        let bounds_of = |tp: &TypeParam| -> Vec<TypeParamBound> {
            let mut v: Vec<TypeParamBound> = tp.bounds.iter().cloned().collect();
            if let Some(w) = &sig.generics.where_clause {
                for pr in &w.predicates {
                    if let WherePredicate::Type(pt) = pr {
                        if let Type::Path(tp2) = &pt.bounded_ty {
                            if tp2.path.is_ident(&tp.ident) {
                                v.extend(pt.bounds.iter().cloned());
                            }
                        }
                    }
                }
            }
            v
        };
        let mut b3 = bind2.clone();
        let mut has_rng = false;
        let mut classified = 0usize;
        for tp in &tparams {
            let is_rng = bounds_of(tp).iter().any(|b| match b {
                TypeParamBound::Trait(tb) => tb.path.segments.last().map(|s| s.ident == "Rng").unwrap_or(false),
                _ => false,
            });
            if is_rng {
                b3.insert(tp.ident.to_string(), Ty::Rng);
                has_rng = true;
                classified += 1;
            }
        }
        for tp in &tparams {
            if b3.contains_key(&tp.ident.to_string()) {
                continue;
            }
            for b in bounds_of(tp) {
                if let TypeParamBound::Trait(tb) = &b {
                    let last = tb.path.segments.last().unwrap();
                    if last.ident == "Fn" || last.ident == "FnMut" || last.ident == "FnOnce" {
                        if let PathArguments::Parenthesized(pa) = &last.arguments {
                            let ins: Vec<Ty> = pa.inputs.iter().map(|t| conv_type(t, &b3)).collect();
                            let out = match &pa.output {
                                ReturnType::Type(_, t) => conv_type(t, &b3),
                                ReturnType::Default => Ty::Unit,
                            };
                            b3.insert(tp.ident.to_string(), Ty::Fn(ins, Box::new(out)));
                            classified += 1;
                            break;
                        }
                    }
                }
            }
        }
        if has_rng && classified == tparams.len() {
            rng_generic = true;
            generic = false;
            bind2 = b3;
            params.clear();
            for a in &sig.inputs {
                if let FnArg::Typed(pt) = a {
                    params.push(((*pt.pat).clone(), conv_type(&pt.ty, &bind2)));
                }
            }
            ret = match &sig.output {
                ReturnType::Default => Ty::Unit,
                ReturnType::Type(_, t) => conv_type(t, &bind2),
            };
        }
    }
    let bind = &bind2;
    let (key, lean_name) = match &self_ty {
        Some(s) => (format!("{}::{}", s, name), format!("{}.{}", s, name)),
        None => (format!("{}::{}", mkey, name), format!("{}.{}", layer_prefix(module), name)),
    };
    FnInfo {
        key,
        lean_name,
        module: module.to_vec(),
        name,
        self_kind,
        self_ty,
        trait_name,
        trait_args,
        params,
        ret,
        body: block.clone(),
        generic,
        is_pub,
        file: file.to_string(),
        line: sig.ident.span().start().line,
        from_trait_default: from_default,
        tybind: bind.clone(),
        cfg_rand,
        param_ref,
        rng_generic,
    }
}
