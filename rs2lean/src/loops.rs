//! Loops are lifted to auxiliary recursive definitions:
//!   `loop`/`while`  → structural recursion on a fuel argument (`LoopR.hang` when exhausted);
//!   `for x in list` → structural recursion on the list.
use crate::ctx::*;
use crate::expr::*;
use crate::index::*;
use crate::stmt::*;
use quote::ToTokens;
use syn::*;

pub enum LoopKind<'a> {
    Loop(&'a Block),
    While(&'a Expr, &'a Block),
    For(&'a Pat, &'a Expr, &'a Block),
}

pub fn idents_in(ts: proc_macro2::TokenStream, out: &mut std::collections::BTreeSet<String>) {
    for t in ts {
        match t {
            proc_macro2::TokenTree::Ident(i) => {
                out.insert(i.to_string());
            }
            proc_macro2::TokenTree::Group(g) => idents_in(g.stream(), out),
            _ => {}
        }
    }
}

pub fn tr_loop(cx: &mut Ctx, kind: LoopKind, rest: &[Stmt], k: &Cont) -> R<Tr> {
    let (cond, body, forinfo): (Option<&Expr>, &Block, Option<(&Pat, &Expr)>) = match &kind {
        LoopKind::Loop(b) => (None, *b, None),
        LoopKind::While(c, b) => (Some(*c), *b, None),
        LoopKind::For(p, e, b) => (None, *b, Some((*p, *e))),
    };
    if let Some(c) = cond {
        if matches!(strip(c), Expr::Let(_)) {
            return Err("while-let".into());
        }
    }
    let state_names = assigned_in_loop(cx, cond, body);
    let mut state: Vec<(String, String, Ty)> = vec![];
    for n in &state_names {
        let (ln, ty) = cx.lookup(n).unwrap();
        state.push((n.clone(), ln, ty));
    }
    // iterator expression (evaluated outside)
    let iter_tr = match forinfo {
        Some((_, e)) => {
            let t = tr_expr(cx, e, None)?;
            match &t.ty {
                Ty::List(_) | Ty::Iter(_) => Some(t),
                other => return Err(format!("for over {:?}", other)),
            }
        }
        None => None,
    };
    // captured variables: in-scope locals referenced in the loop, not in state
    let mut ids = std::collections::BTreeSet::new();
    if let Some(c) = cond {
        idents_in(c.to_token_stream(), &mut ids);
    }
    idents_in(body.to_token_stream(), &mut ids);
    let mut caps: Vec<(String, String, Ty)> = vec![];
    let mut seen = std::collections::BTreeSet::new();
    for sc in cx.scopes.iter().rev() {
        let mut names: Vec<&String> = sc.keys().collect();
        names.sort();
        for n in names {
            if seen.contains(n) {
                continue;
            }
            seen.insert(n.clone());
            if state_names.contains(n) || !ids.contains(n) {
                continue;
            }
            let (ln, ty) = sc.get(n).unwrap().clone();
            caps.push((n.clone(), ln, ty));
        }
    }
    if ids.contains("self") && cx.self_ty.is_some() && cx.sig_params.iter().any(|p| p.0 == "self") && !state_names.contains(&"self".to_string()) && !caps.iter().any(|c| c.0 == "self") {
        let st = cx.tybind.get("Self").cloned().unwrap();
        caps.push(("self".into(), "self".into(), st));
    }
    caps.sort_by(|a, b| a.1.cmp(&b.1));
    let n = cx.aux_defs.len() + 1 + cx.loop_ctx.len() * 100 + cx.fresh;
    cx.fresh += 1;
    let name = format!("{}.loop{}", cx.fn_lean_name, n);
    let ret_ty_s = match &cx.full_ret_lean {
        Some(s) => s.clone(),
        None => cx.lean_ty(&cx.ret.clone())?,
    };
    let state_ty = match state.len() {
        0 => Ty::Unit,
        1 => state[0].2.clone(),
        _ => Ty::Tuple(state.iter().map(|x| x.2.clone()).collect()),
    };
    struct BreakFinder {
        found: bool,
        depth: usize,
    }
    impl<'ast> syn::visit::Visit<'ast> for BreakFinder {
        fn visit_expr(&mut self, e: &'ast Expr) {
            match e {
                Expr::Break(_) if self.depth == 0 => self.found = true,
                Expr::Closure(_) => {}
                Expr::Loop(_) | Expr::While(_) | Expr::ForLoop(_) => {
                    self.depth += 1;
                    syn::visit::visit_expr(self, e);
                    self.depth -= 1;
                }
                _ => syn::visit::visit_expr(self, e),
            }
        }
    }
    let mut bf = BreakFinder { found: false, depth: 0 };
    syn::visit::Visit::visit_block(&mut bf, body);
    let never_falls_through = matches!(kind, LoopKind::Loop(_)) && !bf.found;
    // a `loop` without `break` never yields `LoopR.done`: in sampler code its payload type is `Unit`
    // (as in the hand models), the state is still threaded through the recursive call
    let state_ty_s = if never_falls_through && cx.rng_mode { "Unit".to_string() } else { cx.lean_ty(&state_ty)? };
    let mut binders = String::new();
    for (_, ln, ty) in &caps {
        binders.push_str(&format!(" ({} : {})", ln, cx.lean_ty(ty)?));
    }
    let is_for = iter_tr.is_some();
    let cap_args: String = caps.iter().map(|c| format!(" {}", c.1)).collect();
    let sf = "⟪SF⟫";
    let (rec_call, first_binder) = if is_for {
        let el = match &iter_tr.as_ref().unwrap().ty {
            Ty::List(t) | Ty::Iter(t) => (**t).clone(),
            _ => unreachable!(),
        };
        (format!("{} (α := α) l_{}", name, cap_args), format!("(l_ : List {})", cx.lean_ty(&el)?))
    } else {
        (format!("{} (α := α) fuel{}", name, cap_args), "(fuel : Nat)".to_string())
    };
    let mut state_binders = String::new();
    for (_, ln, ty) in &state {
        state_binders.push_str(&format!(" ({} : {})", ln, cx.lean_ty(ty)?));
    }
    if cx.value_depth > 0 && !cx.loop_ctx.is_empty() && block_has_return(body) {
        return Err("return from a loop nested in a value block inside another loop".into());
    }
    if !cx.prelude.is_empty() {
        return Err("pending side effect in front of a loop".into());
    }
    let saved_vd = cx.value_depth;
    cx.value_depth = 0;
    cx.loop_ctx.push(LoopCtx { state: state.clone(), call: rec_call.clone(), ret_ty: ret_ty_s.clone() });
    let saved = cx.scopes.clone();
    cx.push();
    let body_tr: R<String> = (|| {
        let mut pre = String::new();
        if let Some((p, _)) = forinfo {
            let el = match &iter_tr.as_ref().unwrap().ty {
                Ty::List(t) | Ty::Iter(t) => (**t).clone(),
                _ => unreachable!(),
            };
            let ps = tr_pat(cx, p, &el)?;
            pre = format!("match x_ with\n| {} =>\n", ps);
        }
        let b = tr_stmts(cx, &body.stmts, &Cont::LoopNext)?;
        let inner = match cond {
            Some(c) => {
                let n_pre = cx.prelude.len();
                let ct = tr_expr(cx, c, Some(&Ty::Bool))?;
                if cx.prelude.len() != n_pre {
                    return Err("side effect in a `while` condition".into());
                }
                let names: Vec<String> = state.iter().map(|x| x.1.clone()).collect();
                let tup = match names.len() {
                    0 => "()".to_string(),
                    1 => names[0].clone(),
                    _ => format!("({})", names.join(", ")),
                };
                format!("if {} then\n{}\n else (LoopR.done {})", ct.as_prop(), b.val(), tup)
            }
            None => b.val(),
        };
        if !cx.prelude.is_empty() {
            return Err("side effect left pending at the end of a loop body".into());
        }
        Ok(format!("{}{}", pre, inner))
    })();
    cx.scopes = saved;
    cx.loop_ctx.pop();
    cx.value_depth = saved_vd;
    let body_s = crate::reindent(&body_tr?, 4);
    let names: Vec<String> = state.iter().map(|x| x.1.clone()).collect();
    let tup = match names.len() {
        0 => "()".to_string(),
        1 => names[0].clone(),
        _ => format!("({})", names.join(", ")),
    };
    let def = if is_for {
        format!(
            "def {name} {b}{sf} {fb}{caps}{st} : LoopR {rt} {sty} :=\n  match l_ with\n  | [] => LoopR.done {tup}\n  | x_ :: l_ =>\n{body}\n",
            name = name,
            b = BINDERS,
            sf = sf,
            fb = first_binder,
            caps = binders,
            st = state_binders,
            rt = ret_ty_s,
            sty = state_ty_s,
            tup = tup,
            body = body_s
        )
    } else {
        format!(
            "def {name} {b}{sf} {fb}{caps}{st} : LoopR {rt} {sty} :=\n  match fuel with\n  | 0 => LoopR.hang\n  | fuel + 1 =>\n{body}\n",
            name = name,
            b = BINDERS,
            sf = sf,
            fb = first_binder,
            caps = binders,
            st = state_binders,
            rt = ret_ty_s,
            sty = state_ty_s,
            body = body_s
        )
    };
    cx.aux_defs.push(def);
    // call site
    // in a sampler the pair (panic value, random source) keeps the source of the call site
    let panic_here = if cx.rng_mode && cx.value_depth == 0 && cx.loop_ctx.is_empty() { cx.with_outs("panicV") } else { "panicV".to_string() };
    let r = if never_falls_through { Tr::new(panic_here.clone(), Ty::Never) } else { tr_stmts(cx, rest, k)? };
    let first_arg = if is_for { iter_tr.unwrap().s } else { LOOP_FUEL.to_string() };
    let st_args: String = state.iter().map(|s| format!(" {}", s.1)).collect();
    let direct = cx.loop_ctx.is_empty();
    let ret_v = if direct { "v_".to_string() } else if cx.value_depth > 0 { "panicV".to_string() } else { "(LoopR.ret v_)".to_string() };
    let hang_v = if direct || cx.value_depth > 0 { panic_here.clone() } else { "LoopR.hang".to_string() };
    let s = format!(
        "(match {name} (α := α) {fa}{caps}{st} with\n | LoopR.ret v_ => {rv}\n | LoopR.hang => {hv}\n | LoopR.done {tup} =>\n{rest})",
        name = name,
        fa = first_arg,
        caps = cap_args,
        st = st_args,
        rv = ret_v,
        hv = hang_v,
        // a `loop` without `break` never yields `done`: in a sampler the panic pair keeps the source of the call site
        tup = if never_falls_through && cx.rng_mode { "_".to_string() } else { tup },
        rest = r.val()
    );
    Ok(Tr::new(s, r.ty))
}
