//! rs2lean — translate the supported subset of /repo/src into the Lean model `Statrs.Gen.*`.
//! usage: rs2lean <repo-src-dir> <lean-gen-dir> [<harness-gen-rs>]
mod ctx;
mod dispatch;
mod expr;
mod index;
mod loops;
mod method;
mod stmt;

use ctx::*;
use expr::BINDERS;
use index::*;
use quote::ToTokens;
use std::collections::{BTreeMap, BTreeSet, HashMap};
use std::path::Path;
use stmt::*;

pub struct Translated {
    pub key: String,
    pub text: String, // aux defs + def
    pub deps: BTreeSet<String>,
    pub const_deps: BTreeSet<String>,
    pub sf_calls: BTreeSet<String>,
    pub file: String,
    pub has_loop: bool,
    pub uses_rngfloat: bool,
}

fn fnv(s: &str) -> String {
    let mut h: u64 = 0xcbf29ce484222325;
    for b in s.bytes() {
        h ^= b as u64;
        h = h.wrapping_mul(0x100000001b3);
    }
    format!("{:016x}", h)
}

fn new_ctx<'a>(idx: &'a Index, module: &[String], self_ty: Option<String>, ret: Ty, tybind: HashMap<String, Ty>, lean_name: &str) -> Ctx<'a> {
    let f_layer = module.len() >= 2 && module[1] == "function";
    Ctx {
        idx,
        module: module.to_vec(),
        self_ty,
        ret,
        scopes: vec![HashMap::new()],
        muts: BTreeSet::new(),
        deps: BTreeSet::new(),
        const_deps: BTreeSet::new(),
        sf_calls: BTreeSet::new(),
        f_layer,
        tybind,
        local_uses: HashMap::new(),
        fresh: 0,
        aux_defs: vec![],
        fn_lean_name: lean_name.to_string(),
        loop_ctx: vec![],
        sig_params: vec![],
        value_depth: 0,
        prelude: vec![],
        mut_self: false,
        full_ret_lean: None,
        out_params: vec![],
        rng_mode: false,
        uses_rngfloat: false,
        local_fns: HashMap::new(),
    }
}

pub fn translate_fn(idx: &Index, fi: &FnInfo) -> R<Translated> {
    if fi.generic {
        return Err("generic function".into());
    }
    if fi.cfg_rand && !fi.rng_generic {
        return Err("rand-gated (sampler)".into());
    }

    let mut cx = new_ctx(idx, &fi.module, fi.self_ty.clone(), fi.ret.clone(), fi.tybind.clone(), &fi.lean_name);
    cx.rng_mode = fi.rng_generic;
    let mut binders = String::new();
    if fi.self_kind != SelfKind::None {
        let st = fi.tybind.get("Self").cloned().ok_or("no Self")?;
        binders.push_str(&format!(" (self : {})", cx.lean_ty(&st)?));
        cx.sig_params.push(("self".into(), cx.lean_ty(&st)?));
    }
    for (p, t) in &fi.params {
        let name = match p {
            syn::Pat::Ident(i) => i.ident.to_string(),
            syn::Pat::Wild(_) => "_".to_string(),
            _ => return Err("complex parameter pattern".into()),
        };
        let lt = cx.lean_ty(t)?;
        if let syn::Pat::Ident(i) = p {
            if i.mutability.is_some() {
                cx.muts.insert(name.clone());
            }
        }
        let ln = if name == "_" && *t == Ty::Rng {
            // `_: &mut R`: the untouched random source is still part of the result
            let f = cx.fresh("_u");
            cx.scopes.last_mut().unwrap().insert(WILD_RNG.to_string(), (f.clone(), Ty::Rng));
            f
        } else if name == "_" {
            cx.fresh("_u")
        } else {
            cx.bind(&name, t.clone())
        };
        binders.push_str(&format!(" ({} : {})", ln, lt));
        cx.sig_params.push((ln, lt));
    }
    let mut ret_s = cx.lean_ty(&fi.ret)?;
    if fi.self_kind == SelfKind::MutRef {
        let st = fi.tybind.get("Self").cloned().ok_or("no Self")?;
        cx.mut_self = true;
        cx.out_params.push("self".into());
        cx.bind("self", st.clone());
        ret_s = format!("({} × {})", ret_s, cx.lean_ty(&st)?);
    }
    for (i, (p, t)) in fi.params.iter().enumerate() {
        if fi.param_ref.get(i).copied().unwrap_or(0) == 2 {
            let name = match p {
                syn::Pat::Ident(id) => id.ident.to_string(),
                syn::Pat::Wild(_) if *t == Ty::Rng => WILD_RNG.to_string(),
                _ => return Err("complex &mut parameter".into()),
            };
            cx.mut_self = true;
            cx.out_params.push(name);
            ret_s = format!("({} × {})", ret_s.trim_start_matches('(').trim_end_matches(')'), cx.lean_ty(t)?);
        }
    }
    cx.full_ret_lean = Some(ret_s.clone());
    let body = tr_stmts(&mut cx, &fi.body.stmts, &Cont::Value(Some(fi.ret.clone())))?;
    if !cx.prelude.is_empty() {
        return Err("side effect left pending at the end of the function body".into());
    }
    let sf = "⟪SF⟫";
    let hash = fnv(&fi.body.to_token_stream().to_string());
    let mut text = String::new();
    for a in &cx.aux_defs {
        text.push_str(a);
        text.push('\n');
    }
    let doc = format!("/-- {}:{}{} [body {}] -/\n", fi.file, fi.line, if fi.from_trait_default { " (trait default)" } else { "" }, hash);
    if cx.deps.contains(&fi.key) {
        // self-recursive: structural recursion on a fuel argument (Rust recursion depth here is tiny)
        let call = format!("{} (α := α)", fi.lean_name);
        let rec_call = format!("{}.rec (α := α) fuel", fi.lean_name);
        let body_rec = body.val().replace(&call, &rec_call);
        let arg_names: String = cx.sig_params.iter().map(|p| format!(" {}", p.0)).collect();
        text.push_str(&format!(
            "{}def {}.rec {}{} (fuel : Nat){} : {} :=\n  match fuel with\n  | 0 => panicV\n  | fuel + 1 =>\n{}\n\n",
            doc, fi.lean_name, BINDERS, sf, binders, ret_s, reindent(&body_rec, 4)
        ));
        text.push_str(&format!(
            "def {} {}{}{} : {} :=\n  {}.rec (α := α) recFuel{}\n",
            fi.lean_name, BINDERS, sf, binders, ret_s, fi.lean_name, arg_names
        ));
    } else {
        text.push_str(&format!("{}def {} {}{}{} : {} :=\n{}\n", doc, fi.lean_name, BINDERS, sf, binders, ret_s, indent(&body.val())));
    }
    Ok(Translated {
        key: fi.key.clone(),
        text,
        deps: cx.deps.clone(),
        const_deps: cx.const_deps.clone(),
        sf_calls: cx.sf_calls.clone(),
        file: if fi.rng_generic { format!("smp:{}", fi.file) } else { fi.file.clone() },
        has_loop: !cx.aux_defs.is_empty(),
        uses_rngfloat: cx.uses_rngfloat,
    })
}

/// rust-side name under which a `_: &mut R` parameter is registered
pub const WILD_RNG: &str = "_rng_wild";

fn translate_const(idx: &Index, ci: &ConstInfo) -> R<Translated> {
    let mut cx = new_ctx(idx, &ci.module, None, ci.ty.clone(), HashMap::new(), &ci.lean_name);
    let ty_s = cx.lean_ty(&ci.ty)?;
    let v = expr::tr_expr(&mut cx, &ci.expr, Some(&ci.ty))?;
    let mut text = String::new();
    for a in &cx.aux_defs {
        text.push_str(a);
        text.push('\n');
    }
    text.push_str(&format!("/-- {}:{} -/\ndef {} {} : {} :=\n{}\n", ci.file, ci.line, ci.lean_name, BINDERS, ty_s, indent(&v.val())));
    let has_loop = !cx.aux_defs.is_empty();
    Ok(Translated { key: ci.key.clone(), text, deps: cx.deps, const_deps: cx.const_deps, sf_calls: cx.sf_calls, file: ci.file.clone(), has_loop, uses_rngfloat: false })
}

pub fn indent(s: &str) -> String {
    reindent(s, 2)
}

/// Re-indent generated code by parenthesis depth so that Lean's layout rules are met.
pub fn reindent(s: &str, base: usize) -> String {
    let mut depth: usize = 0;
    let mut out = vec![];
    for l in s.lines() {
        let t = l.trim();
        if t.is_empty() {
            continue;
        }
        let lead_close = t.chars().take_while(|c| *c == ')').count();
        let d = depth.saturating_sub(lead_close);
        out.push(format!("{}{}", " ".repeat(base + 2 * d), t));
        for c in t.chars() {
            match c {
                '(' | '[' | '{' => depth += 1,
                ')' | ']' | '}' => depth = depth.saturating_sub(1),
                _ => {}
            }
        }
    }
    out.join("\n")
}

fn gen_file_name(file: &str) -> String {
    // src/distribution/exponential.rs -> D_exponential ; src/function/gamma.rs -> F_gamma
    // smp:src/distribution/exponential.rs -> Smp_exponential (the samplers of that file, on `Statrs.Model.Rng`)
    if let Some(f) = file.strip_prefix("smp:") {
        let g = gen_file_name(f);
        let rest = g.splitn(2, '_').nth(1).unwrap_or(&g).to_string();
        return format!("Smp_{}", rest);
    }
    let p = file.trim_start_matches("src/").trim_end_matches(".rs");
    let parts: Vec<&str> = p.split('/').collect();
    let (pre, rest): (&str, Vec<&str>) = match parts[0] {
        "distribution" if parts.len() > 1 => ("D", parts[1..].to_vec()),
        "function" if parts.len() > 1 => ("F", parts[1..].to_vec()),
        "stats_tests" if parts.len() > 1 => ("T", parts[1..].to_vec()),
        "statistics" if parts.len() > 1 => ("S", parts[1..].to_vec()),
        _ => ("R", parts.clone()),
    };
    format!("{}_{}", pre, rest.join("_"))
}

pub fn write_if_changed_pub(path: &Path, content: &str) {
    write_if_changed(path, content)
}

fn write_if_changed(path: &Path, content: &str) {
    if let Ok(old) = std::fs::read_to_string(path) {
        if old == content {
            return;
        }
    }
    std::fs::write(path, content).unwrap();
}

fn main() {
    let args: Vec<String> = std::env::args().collect();
    if args.len() < 3 {
        eprintln!("usage: rs2lean <repo-src-dir> <lean-gen-dir> [<harness-gen-rs>]");
        std::process::exit(2);
    }
    let src = Path::new(&args[1]);
    let out = Path::new(&args[2]);
    std::fs::create_dir_all(out).unwrap();
    let idx = load(src);

    // ---- translate everything independently
    let mut ok: BTreeMap<String, Translated> = BTreeMap::new();
    let mut failed: BTreeMap<String, String> = BTreeMap::new();
    for (k, fi) in &idx.fns {
        match translate_fn(&idx, fi) {
            Ok(t) => {
                ok.insert(k.clone(), t);
            }
            Err(e) => {
                failed.insert(k.clone(), e);
            }
        }
    }
    for (k, ci) in &idx.consts {
        match translate_const(&idx, ci) {
            Ok(t) => {
                ok.insert(k.clone(), t);
            }
            Err(e) => {
                failed.insert(k.clone(), e);
            }
        }
    }
    // ---- propagate failures through dependencies
    loop {
        let mut newly: Vec<(String, String)> = vec![];
        for (k, t) in &ok {
            for d in t.deps.iter().chain(t.const_deps.iter()) {
                if !ok.contains_key(d) {
                    newly.push((k.clone(), format!("depends on untranslated {}", d)));
                    break;
                }
            }
        }
        if newly.is_empty() {
            break;
        }
        for (k, why) in newly {
            ok.remove(&k);
            failed.insert(k, why);
        }
    }

    // ---- Types.lean: all supported structs and plain enums
    let mut types = String::new();
    types.push_str("-- GENERATED by rs2lean from /repo/src — do not edit\nimport Statrs.Basic\nset_option linter.unusedVariables false\nnamespace Statrs.Gen\nopen Statrs\n\n");
    let cx0 = new_ctx(&idx, &["crate".to_string()], None, Ty::Unit, HashMap::new(), "");
    let mut enum_order: Vec<&EnumInfo> = idx.enums.values().collect();
    enum_order.sort_by_key(|e| e.payloads.iter().any(|p| p.is_some()));
    for e in enum_order {
        if !e.plain || e.variants.is_empty() {
            continue;
        }
        types.push_str(&format!("/-- {} -/\ninductive {} where\n", e.file, e.name));
        let mut good = true;
        let mut body = String::new();
        for (v, p) in e.variants.iter().zip(e.payloads.iter()) {
            match p {
                None => body.push_str(&format!("  | {}\n", lean_ident(v))),
                Some(t) => match cx0.lean_ty(t) {
                    Ok(lt) => body.push_str(&format!("  | {} (x : {})\n", lean_ident(v), lt)),
                    Err(_) => good = false,
                },
            }
        }
        if !good {
            continue;
        }
        types.push_str(&body);
        types.push_str("  deriving Repr, DecidableEq, Inhabited\n\n");
    }
    // structs in dependency order
    let mut emitted: BTreeSet<String> = BTreeSet::new();
    for _round in 0..6 {
        for s in idx.structs.values() {
            if emitted.contains(&s.name) || !s.supported {
                continue;
            }
            fn deps_of(t: &Ty, out: &mut Vec<String>) {
                match t {
                    Ty::Struct(n) => out.push(n.clone()),
                    Ty::Opt(a) | Ty::List(a) => deps_of(a, out),
                    Ty::Tuple(v) => v.iter().for_each(|x| deps_of(x, out)),
                    _ => {}
                }
            }
            let mut ds = vec![];
            s.fields.iter().for_each(|(_, t)| deps_of(t, &mut ds));
            if ds.iter().any(|d| !emitted.contains(d)) {
                continue;
            }
            let mut body = String::new();
            let mut good = true;
            for (n, t) in &s.fields {
                match cx0.lean_ty(t) {
                    Ok(lt) => body.push_str(&format!("  f_{} : {}\n", n, lt)),
                    Err(_) => good = false,
                }
            }
            if !good {
                continue;
            }
            let params = if s.has_float { " (α : Type)" } else { "" };
            if s.fields.is_empty() {
                types.push_str(&format!("/-- {}:{} -/\nstructure {}{} where\n  deriving Inhabited\n\n", s.file, s.line, s.name, params));
            } else {
                types.push_str(&format!("/-- {}:{} -/\nstructure {}{} where\n{}  deriving Inhabited\n\n", s.file, s.line, s.name, params, body));
            }
            emitted.insert(s.name.clone());
        }
    }
    types.push_str("end Statrs.Gen\n");
    write_if_changed(&out.join("Types.lean"), &types);

    // ---- SF.lean: the special-function interface (every translatable-signature pub fn in src/function)
    let mut sf_fields: Vec<(String, String, String)> = vec![]; // (field, type, key)
    let mut seen_names: BTreeSet<String> = BTreeSet::new();
    for (k, fi) in &idx.fns {
        if !(fi.module.len() >= 2 && fi.module[1] == "function") || fi.self_ty.is_some() || fi.generic || !fi.is_pub {
            continue;
        }
        let mut sig = String::new();
        let mut good = true;
        for (_, t) in &fi.params {
            match cx0.lean_ty(t) {
                Ok(s) => sig.push_str(&format!("{} → ", s)),
                Err(_) => good = false,
            }
        }
        match cx0.lean_ty(&fi.ret) {
            Ok(s) => sig.push_str(&s),
            Err(_) => good = false,
        }
        if !good {
            continue;
        }
        if !seen_names.insert(fi.name.clone()) {
            eprintln!("warning: duplicate function-layer name {}", fi.name);
            continue;
        }
        sf_fields.push((fi.name.clone(), sig, k.clone()));
    }
    let mut sf = String::new();
    sf.push_str("-- GENERATED by rs2lean — do not edit\nimport Statrs.Gen.Types\nnamespace Statrs.Gen\nopen Statrs\n\n/-- The public functions of `statrs::function`, as seen by the rest of the crate. -/\nclass SF (α : Type) where\n");
    for (n, s, _) in &sf_fields {
        sf.push_str(&format!("  {} : {}\n", n, s));
    }
    sf.push_str("\nend Statrs.Gen\n");
    write_if_changed(&out.join("SF.lean"), &sf);

    // ---- which items need the `[SF α]` instance (transitively)
    let mut needs_sf: BTreeSet<String> = ok.iter().filter(|(_, t)| !t.sf_calls.is_empty()).map(|(k, _)| k.clone()).collect();
    loop {
        let mut add = vec![];
        for (k, t) in &ok {
            if !needs_sf.contains(k) && t.deps.iter().chain(t.const_deps.iter()).any(|d| needs_sf.contains(d)) {
                add.push(k.clone());
            }
        }
        if add.is_empty() {
            break;
        }
        needs_sf.extend(add);
    }
    // ---- which items need `[RngFloat α]` (transitively): only samplers
    let mut needs_rf: BTreeSet<String> = ok.iter().filter(|(_, t)| t.uses_rngfloat).map(|(k, _)| k.clone()).collect();
    loop {
        let mut add = vec![];
        for (k, t) in &ok {
            if !needs_rf.contains(k) && t.deps.iter().any(|d| needs_rf.contains(d)) {
                add.push(k.clone());
            }
        }
        if add.is_empty() {
            break;
        }
        needs_rf.extend(add);
    }
    for (k, t) in ok.iter_mut() {
        let mut inst = String::new();
        if needs_sf.contains(k) {
            inst.push_str(" [SF α]");
        }
        if needs_rf.contains(k) {
            inst.push_str(" [Statrs.Model.RngFloat α]");
        }
        t.text = t.text.replace("⟪SF⟫", &inst);
    }

    // ---- per-file emission, topologically sorted
    let mut by_file: BTreeMap<String, Vec<String>> = BTreeMap::new();
    for (k, t) in &ok {
        by_file.entry(t.file.clone()).or_default().push(k.clone());
    }
    let mut file_deps: BTreeMap<String, BTreeSet<String>> = BTreeMap::new();
    for (f, keys) in &by_file {
        let mut ds = BTreeSet::new();
        for k in keys {
            let t = &ok[k];
            for d in t.deps.iter().chain(t.const_deps.iter()) {
                let df = &ok[d].file;
                if df != f {
                    ds.insert(df.clone());
                }
            }
        }
        file_deps.insert(f.clone(), ds);
    }
    let mut all_modules: Vec<String> = vec![];
    for (f, keys) in &by_file {
        // order within file
        let mut done: BTreeSet<String> = BTreeSet::new();
        let mut order: Vec<String> = vec![];
        let mut remaining: Vec<String> = keys.clone();
        // stable: by source line
        remaining.sort_by_key(|k| {
            if let Some(fi) = idx.fns.get(k) {
                fi.line
            } else {
                idx.consts.get(k).map(|c| c.line).unwrap_or(0)
            }
        });
        while !remaining.is_empty() {
            let mut progressed = false;
            let mut next = vec![];
            for k in remaining {
                let t = &ok[&k];
                let ready = t.deps.iter().chain(t.const_deps.iter()).all(|d| done.contains(d) || &ok[d].file != f || d == &k);
                if ready {
                    done.insert(k.clone());
                    order.push(k);
                    progressed = true;
                } else {
                    next.push(k);
                }
            }
            remaining = next;
            if !progressed {
                for k in &remaining {
                    failed.insert(k.clone(), "dependency cycle (recursion)".into());
                }
                break;
            }
        }
        let modname = gen_file_name(f);
        let is_f = f.starts_with("src/function/");
        let mut s = String::new();
        let is_smp = f.starts_with("smp:");
        if is_smp {
            s.push_str(&format!(
                "-- GENERATED by rs2lean from {} (functions generic over the random source `R: Rng`; the source is the explicit word stream `Statrs.Model.Rng`) — do not edit\nimport Statrs.Model.Rng\nimport Statrs.Gen.Types\n",
                f.trim_start_matches("smp:")
            ));
        } else {
            s.push_str(&format!("-- GENERATED by rs2lean from {} — do not edit\nimport Statrs.Gen.Types\n", f));
        }
        if !is_f {
            s.push_str("import Statrs.Gen.SF\n");
        }
        for d in &file_deps[f] {
            s.push_str(&format!("import Statrs.Gen.{}\n", gen_file_name(d)));
        }
        s.push_str("set_option linter.unusedVariables false\nset_option maxRecDepth 4096\nnamespace Statrs.Gen\nopen Statrs\n\n");
        for k in &order {
            s.push_str(&ok[k].text);
            s.push('\n');
        }
        s.push_str("end Statrs.Gen\n");
        write_if_changed(&out.join(format!("{}.lean", modname)), &s);
        all_modules.push(modname);
    }
    // remove stale generated files
    if let Ok(rd) = std::fs::read_dir(out) {
        for e in rd.flatten() {
            let n = e.file_name().to_string_lossy().to_string();
            if let Some(stem) = n.strip_suffix(".lean") {
                let keep = ["Types", "SF", "SFFloat", "Dispatch", "All"].contains(&stem) || all_modules.iter().any(|m| m == stem);
                if !keep {
                    let _ = std::fs::remove_file(e.path());
                }
            }
        }
    }
    // ---- SFFloat.lean: the Float instance of SF from the (generated or hand-written) function layer
    let mut sff = String::new();
    sff.push_str("-- GENERATED by rs2lean — do not edit\nimport Statrs.Inst.Float\nimport Statrs.Model.FHand\nimport Statrs.Gen.SF\n");
    for m in &all_modules {
        if m.starts_with("F_") {
            sff.push_str(&format!("import Statrs.Gen.{}\n", m));
        }
    }
    sff.push_str("namespace Statrs.Gen\nopen Statrs\n\ninstance : SF Float where\n");
    for (n, _, k) in &sf_fields {
        let fi = &idx.fns[k];
        if ok.contains_key(k) {
            sff.push_str(&format!("  {} := {} (α := Float)\n", n, fi.lean_name));
        } else {
            sff.push_str(&format!("  {} := FHand.{}\n", n, fi.lean_name));
        }
    }
    sff.push_str("\nend Statrs.Gen\n");
    write_if_changed(&out.join("SFFloat.lean"), &sff);

    // ---- All.lean
    let mut all = String::from("-- GENERATED by rs2lean — do not edit\nimport Statrs.Gen.Types\nimport Statrs.Gen.SF\n");
    for m in &all_modules {
        all.push_str(&format!("import Statrs.Gen.{}\n", m));
    }
    write_if_changed(&out.join("All.lean"), &all);

    // ---- dispatch tables
    let harness_out = args.get(3).map(|s| Path::new(s).to_path_buf());
    dispatch::emit(&idx, &ok, out, harness_out.as_deref());

    // ---- manifest
    let mut man = serde_json::Map::new();
    let mut tr = serde_json::Map::new();
    for (k, t) in &ok {
        let (lean, file, line, hash) = if let Some(fi) = idx.fns.get(k) {
            (fi.lean_name.clone(), fi.file.clone(), fi.line, fnv(&fi.body.to_token_stream().to_string()))
        } else {
            let c = &idx.consts[k];
            (c.lean_name.clone(), c.file.clone(), c.line, fnv(&c.expr.to_token_stream().to_string()))
        };
        tr.insert(
            k.clone(),
            serde_json::json!({"lean": lean, "file": file, "line": line, "hash": hash, "loop": t.has_loop,
              "sf_calls": t.sf_calls.iter().cloned().collect::<Vec<_>>()}),
        );
    }
    let mut un = serde_json::Map::new();
    for (k, why) in &failed {
        let (file, line, hash) = if let Some(fi) = idx.fns.get(k) {
            (fi.file.clone(), fi.line, fnv(&fi.body.to_token_stream().to_string()))
        } else if let Some(c) = idx.consts.get(k) {
            (c.file.clone(), c.line, fnv(&c.expr.to_token_stream().to_string()))
        } else {
            (String::new(), 0, String::new())
        };
        un.insert(k.clone(), serde_json::json!({"reason": why, "file": file, "line": line, "hash": hash}));
    }
    man.insert("translated".into(), serde_json::Value::Object(tr));
    man.insert("untranslated".into(), serde_json::Value::Object(un));
    write_if_changed(&out.join("manifest.json"), &serde_json::to_string_pretty(&serde_json::Value::Object(man)).unwrap());
    eprintln!("rs2lean: translated {} items, {} not translated", ok.len(), failed.len());
}
