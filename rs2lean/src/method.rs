//! Method-call translation (type-directed on the receiver).
use crate::ctx::*;
use crate::expr::*;
use crate::index::*;
use syn::*;

fn arg<'a>(m: &'a ExprMethodCall, i: usize) -> R<&'a Expr> {
    m.args.iter().nth(i).ok_or_else(|| format!("missing arg {} of .{}", i, m.method))
}

pub fn tr_method(cx: &mut Ctx, m: &ExprMethodCall, expected: Option<&Ty>) -> R<Tr> {
    let name = m.method.to_string();
    // float range `.contains(&x)`
    if name == "contains" {
        if let Expr::Range(r) = strip(&m.receiver) {
            let x = tr_expr(cx, arg(m, 0)?, None)?;
            let mut parts = vec![];
            if let Some(lo) = &r.start {
                let l = tr_expr(cx, lo, Some(&x.ty))?;
                parts.push(format!("({} ≤ {})", l.s, x.s));
            }
            if let Some(hi) = &r.end {
                let h = tr_expr(cx, hi, Some(&x.ty))?;
                if matches!(r.limits, RangeLimits::Closed(_)) {
                    parts.push(format!("({} ≤ {})", x.s, h.s));
                } else {
                    parts.push(format!("({} < {})", x.s, h.s));
                }
            }
            return Ok(Tr::prop(format!("({})", parts.join(" ∧ "))));
        }
    }
    let recv = tr_expr(cx, &m.receiver, None)?;
    let rty = recv.ty.clone();
    // identity-like adaptors
    match name.as_str() {
        "clone" | "borrow" | "to_owned" | "as_ref" | "as_mut" | "as_slice" | "to_vec" | "copied" | "cloned" | "by_ref" | "into_iter" | "iter"
            if matches!(rty, Ty::List(_) | Ty::Iter(_)) =>
        {
            let el = match &rty {
                Ty::List(t) | Ty::Iter(t) => (**t).clone(),
                _ => unreachable!(),
            };
            let out = if matches!(name.as_str(), "iter" | "into_iter" | "copied" | "cloned" | "by_ref") { Ty::Iter(Box::new(el)) } else { Ty::List(Box::new(el)) };
            return Ok(Tr::new(recv.s, out));
        }
        "clone" | "borrow" | "to_owned" | "as_ref" | "into" if !matches!(rty, Ty::Unknown(_)) => {
            return Ok(recv);
        }
        _ => {}
    }
    match &rty {
        Ty::Rng => tr_rng_method(cx, m, &recv, expected),
        Ty::F64 => {
            let un = |f: &str| Ok(Tr::new(format!("(RFun.{} {})", f, recv.s), Ty::F64));
            match name.as_str() {
                "ln" => un("ln"),
                "exp" => un("exp"),
                "sqrt" => un("sqrt"),
                "abs" => un("abs"),
                "floor" => un("floor"),
                "ceil" => un("ceil"),
                "round" => un("round"),
                "sin" => un("sin"),
                "cos" => un("cos"),
                "tan" => un("tan"),
                "atan" => un("atan"),
                "ln_1p" => un("ln1p"),
                "exp_m1" => un("expm1"),
                "signum" => un("signum"),
                "recip" => un("recip"),
                "log10" => un("log10"),
                "log2" => un("log2"),
                "is_nan" => Ok(Tr::new(format!("(RFun.isNaN {})", recv.s), Ty::Bool)),
                "is_infinite" => Ok(Tr::new(format!("(RFun.isInf {})", recv.s), Ty::Bool)),
                "is_finite" => Ok(Tr::new(format!("(RFun.isFinite {})", recv.s), Ty::Bool)),
                "powf" => {
                    // rustc/LLVM fold `pow` with a literal operand (no fast-math needed): pow(x, 2.0) → x*x,
                    // pow(2.0, y) → exp2(y); both differ from libm's pow in the last bit now and then.  Other
                    // literal exponents LLVM rewrites (-1.0, 0.5, 1.0, 0.0) do not occur in statrs; refuse them
                    // rather than guess.
                    let lit = |e: &Expr| -> Option<f64> {
                        let mut e = e;
                        loop {
                            match e {
                                Expr::Paren(p) => e = &p.expr,
                                Expr::Group(g) => e = &g.expr,
                                _ => break,
                            }
                        }
                        match e {
                            Expr::Lit(ExprLit { lit: Lit::Float(f), .. }) => f.base10_parse::<f64>().ok(),
                            Expr::Lit(ExprLit { lit: Lit::Int(i), .. }) if i.suffix() == "f64" => i.base10_parse::<f64>().ok(),
                            _ => None,
                        }
                    };
                    if let Some(v) = lit(arg(m, 0)?) {
                        if v == 2.0 {
                            return Ok(Tr::new(format!("(powfLit2 {})", recv.s), Ty::F64));
                        }
                        if v == -1.0 || v == 0.5 || v == 1.0 || v == 0.0 {
                            return Err(format!("powf with literal exponent {} (compiled to a different operation; not modelled)", v));
                        }
                    }
                    let a = tr_expr(cx, arg(m, 0)?, Some(&Ty::F64))?;
                    if lit(&m.receiver) == Some(2.0) {
                        return Ok(Tr::new(format!("(pow2Lit {})", a.s), Ty::F64));
                    }
                    Ok(Tr::new(format!("(RFun.pow {} {})", recv.s, a.s), Ty::F64))
                }
                "powi" => {
                    let a = tr_expr(cx, arg(m, 0)?, Some(&Ty::Int(IntK::I32)))?;
                    Ok(Tr::new(format!("(RFun.powi {} {})", recv.s, a.s), Ty::F64))
                }
                "log" => {
                    let a = tr_expr(cx, arg(m, 0)?, Some(&Ty::F64))?;
                    Ok(Tr::new(format!("(RFun.logb {} {})", recv.s, a.s), Ty::F64))
                }
                "min" => {
                    let a = tr_expr(cx, arg(m, 0)?, Some(&Ty::F64))?;
                    Ok(Tr::new(format!("(RFun.fmin {} {})", recv.s, a.s), Ty::F64))
                }
                "max" => {
                    let a = tr_expr(cx, arg(m, 0)?, Some(&Ty::F64))?;
                    Ok(Tr::new(format!("(RFun.fmax {} {})", recv.s, a.s), Ty::F64))
                }
                "clamp" => {
                    let a = tr_expr(cx, arg(m, 0)?, Some(&Ty::F64))?;
                    let b = tr_expr(cx, arg(m, 1)?, Some(&Ty::F64))?;
                    Ok(Tr::new(format!("(fclamp {} {} {})", recv.s, a.s, b.s), Ty::F64))
                }
                "abs_diff_eq" => {
                    let a = tr_expr(cx, arg(m, 0)?, Some(&Ty::F64))?;
                    let b = tr_expr(cx, arg(m, 1)?, Some(&Ty::F64))?;
                    Ok(Tr::new(format!("(absDiffEq {} {} {})", recv.s, a.s, b.s), Ty::Bool))
                }
                "modulus" => {
                    let a = tr_expr(cx, arg(m, 0)?, Some(&Ty::F64))?;
                    cx.deps.insert("f64::modulus".into());
                    Ok(Tr::new(format!("(f64.modulus (α := α) {} {})", recv.s, a.s), Ty::F64))
                }
                _ => Err(format!("f64 method .{}", name)),
            }
        }
        Ty::Int(k) => match name.as_str() {
            "min" | "max" => {
                let a = tr_expr(cx, arg(m, 0)?, Some(&rty))?;
                let f = if name == "min" { "Min.min" } else { "Max.max" };
                Ok(Tr::new(format!("({} {} {})", f, recv.s, a.s), rty.clone()))
            }
            "saturating_sub" if matches!(k, IntK::U64 | IntK::Usize | IntK::U32) => {
                let a = tr_expr(cx, arg(m, 0)?, Some(&rty))?;
                Ok(Tr::new(format!("(usatSub {} {})", recv.s, a.s), rty.clone()))
            }
            "pow" => {
                let a = tr_expr(cx, arg(m, 0)?, Some(&Ty::Int(IntK::U32)))?;
                Ok(Tr::new(format!("({} ^ (Int.toNat {}))", recv.s, a.s), rty.clone()))
            }
            "abs" => Ok(Tr::new(format!("((Int.natAbs {} : Nat) : Int)", recv.s), rty.clone())),
            "get" if m.args.is_empty() => Ok(recv.clone()),
            "saturating_add" => {
                let a = tr_expr(cx, arg(m, 0)?, Some(&rty))?;
                let mx = match k {
                    IntK::I64 | IntK::Isize => "i64Max",
                    IntK::I32 => "i32Max",
                    _ => "u64Max",
                };
                Ok(Tr::new(format!("(Min.min ({} + {}) {})", recv.s, a.s, mx), rty.clone()))
            }
            _ => Err(format!("int method .{}", name)),
        },
        Ty::Opt(t) => {
            let t = (**t).clone();
            match name.as_str() {
                "unwrap" | "expect" => Ok(Tr::new(format!("(unwrapO {})", recv.s), t)),
                "is_some" => Ok(Tr::new(format!("(Option.isSome {})", recv.s), Ty::Bool)),
                "is_none" => Ok(Tr::new(format!("(Option.isNone {})", recv.s), Ty::Bool)),
                "unwrap_or" => {
                    let d = tr_expr(cx, arg(m, 0)?, Some(&t))?;
                    Ok(Tr::new(format!("(Option.getD {} {})", recv.s, d.val()), t))
                }
                "map" => {
                    let (f, rt) = tr_closure(cx, arg(m, 0)?, &[t], None)?;
                    Ok(Tr::new(format!("(Option.map {} {})", f, recv.s), Ty::Opt(Box::new(rt))))
                }
                "and_then" => {
                    let (f, rt) = tr_closure(cx, arg(m, 0)?, &[t], expected)?;
                    Ok(Tr::new(format!("(Option.bind {} {})", recv.s, f), rt))
                }
                "map_or" => {
                    let d = tr_expr(cx, arg(m, 0)?, expected)?;
                    let (f, _) = tr_closure(cx, arg(m, 1)?, &[t], Some(&d.ty))?;
                    Ok(Tr::new(format!("(match {} with | some v_ => {} v_ | none => {})", recv.s, f, d.val()), d.ty))
                }
                "map_or_else" => {
                    let (fd, dt) = tr_closure(cx, arg(m, 0)?, &[], expected)?;
                    let (f, _) = tr_closure(cx, arg(m, 1)?, &[t], Some(&dt))?;
                    // `fun  => body` with no params: strip the lambda
                    let fd_body = fd.strip_prefix("(fun  => ").and_then(|x| x.strip_suffix(")")).unwrap_or(&fd).to_string();
                    Ok(Tr::new(format!("(match {} with | some v_ => {} v_ | none => ({}))", recv.s, f, fd_body), dt))
                }
                "ok_or" => {
                    let e = tr_expr(cx, arg(m, 0)?, None)?;
                    Ok(Tr::new(
                        format!("(match {} with | some v_ => Except.ok v_ | none => Except.error {})", recv.s, e.val()),
                        Ty::Res(Box::new(t), Box::new(e.ty)),
                    ))
                }
                _ => Err(format!("Option method .{}", name)),
            }
        }
        Ty::Res(t, e) => {
            let (t, e) = ((**t).clone(), (**e).clone());
            match name.as_str() {
                "unwrap" | "expect" => Ok(Tr::new(format!("(unwrapE {})", recv.s), t)),
                "is_ok" => Ok(Tr::new(format!("(Except.isOk {})", recv.s), Ty::Bool)),
                "is_err" => Ok(Tr::prop(format!("(¬ (Except.isOk {} = true))", recv.s))),
                "ok" => Ok(Tr::new(format!("(exceptToOption {})", recv.s), Ty::Opt(Box::new(t)))),
                "and_then" => {
                    let (f, rt) = tr_closure(cx, arg(m, 0)?, &[t], expected)?;
                    Ok(Tr::new(format!("(match {} with | .ok v_ => {} v_ | .error e_ => .error e_)", recv.s, f), rt))
                }
                "map" => {
                    let (f, rt) = tr_closure(cx, arg(m, 0)?, &[t], None)?;
                    Ok(Tr::new(format!("(exceptMap {} {})", f, recv.s), Ty::Res(Box::new(rt), Box::new(e))))
                }
                _ => Err(format!("Result method .{}", name)),
            }
        }
        Ty::Struct(_) if cx.rng_mode && name == "sample" && m.args.len() == 1 => crate::expr::call_sample(cx, &recv, expected, &m.args),
        Ty::Struct(sn) => {
            let key = format!("{}::{}", sn, name);
            if let Some(fi) = cx.idx.fns.get(&key).cloned() {
                if fi.self_kind == SelfKind::MutRef {
                    // `place.method(args)` with `&mut self`: hoist `let (r, obj') := T.method place args` and write back
                    if fi.generic || fi.params.len() != m.args.len() {
                        return Err(format!("call to &mut self method {}", key));
                    }
                    let mut ss = vec![recv.val()];
                    for (a, (_, pty)) in m.args.iter().zip(fi.params.iter()) {
                        ss.push(tr_expr(cx, a, Some(pty))?.val());
                    }
                    cx.deps.insert(key.clone());
                    let tmp = cx.fresh("r");
                    let obj = cx.fresh("o");
                    let call = format!("({} (α := α) {})", fi.lean_name, ss.join(" "));
                    let writeback = match strip(&m.receiver) {
                        Expr::Path(p) if p.path.segments.len() == 1 => {
                            let n = p.path.segments[0].ident.to_string();
                            let ln = if n == "self" { "self".to_string() } else { cx.lookup(&n).ok_or("&mut call on unknown")?.0 };
                            format!("let {} := {}\n", ln, obj)
                        }
                        Expr::Field(f) => {
                            let base = match strip(&f.base) {
                                Expr::Path(p) if p.path.segments.len() == 1 => p.path.segments[0].ident.to_string(),
                                _ => return Err("&mut call on nested place".into()),
                            };
                            let ln = if base == "self" { "self".to_string() } else { cx.lookup(&base).ok_or("&mut call on unknown")?.0 };
                            let fname = match &f.member {
                                Member::Named(i) => i.to_string(),
                                Member::Unnamed(i) => i.index.to_string(),
                            };
                            format!("let {} := {{ {} with f_{} := {} }}\n", ln, ln, fname, obj)
                        }
                        _ => return Err("&mut call on complex place".into()),
                    };
                    cx.prelude.push(format!("let ({}, {}) := {}\n{}", tmp, obj, call, writeback));
                    return Ok(Tr::new(tmp, fi.ret.clone()));
                }
                return call_fn(cx, &key, Some(&recv), &m.args);
            }
            Err(format!("unknown method {}.{}", sn, name))
        }
        Ty::List(el) | Ty::Iter(el) => {
            let el = (**el).clone();
            let is_list = matches!(rty, Ty::List(_));
            let it = |t: Ty| Ty::Iter(Box::new(t));
            match name.as_str() {
                "len" | "count" => Ok(Tr::new(format!("(listLen {})", recv.s), Ty::Int(IntK::Usize))),
                "is_empty" if is_list => Ok(Tr::new(format!("(List.isEmpty {})", recv.s), Ty::Bool)),
                "last" => Ok(Tr::new(format!("(List.getLast? {})", recv.s), Ty::Opt(Box::new(el)))),
                "first" if is_list => Ok(Tr::new(format!("(List.head? {})", recv.s), Ty::Opt(Box::new(el)))),
                "get" if is_list => {
                    let i = tr_expr(cx, arg(m, 0)?, Some(&Ty::Int(IntK::Usize)))?;
                    Ok(Tr::new(format!("(listGet? {} {})", recv.s, i.s), Ty::Opt(Box::new(el))))
                }
                "enumerate" => Ok(Tr::new(format!("(listEnum {})", recv.s), it(Ty::Tuple(vec![Ty::Int(IntK::Usize), el])))),
                "skip" => {
                    let n = tr_expr(cx, arg(m, 0)?, Some(&Ty::Int(IntK::Usize)))?;
                    Ok(Tr::new(format!("(List.drop (Int.toNat {}) {})", n.s, recv.s), it(el)))
                }
                "take" => {
                    let n = tr_expr(cx, arg(m, 0)?, Some(&Ty::Int(IntK::Usize)))?;
                    Ok(Tr::new(format!("(List.take (Int.toNat {}) {})", n.s, recv.s), it(el)))
                }
                "rev" => Ok(Tr::new(format!("(List.reverse {})", recv.s), it(el))),
                "flatten" | "concat" => match el {
                    Ty::List(inner) | Ty::Iter(inner) => Ok(Tr::new(format!("(List.flatten {})", recv.s), it(*inner))),
                    _ => Err("flatten of non-nested list".into()),
                },
                "zip" => {
                    let o = tr_expr(cx, arg(m, 0)?, None)?;
                    let oel = match &o.ty {
                        Ty::List(t) | Ty::Iter(t) => (**t).clone(),
                        t => return Err(format!("zip with {:?}", t)),
                    };
                    Ok(Tr::new(format!("(List.zip {} {})", recv.s, o.s), it(Ty::Tuple(vec![el, oel]))))
                }
                "map" => {
                    let (f, rt) = tr_closure(cx, arg(m, 0)?, &[el], None)?;
                    Ok(Tr::new(format!("(List.map {} {})", f, recv.s), it(rt)))
                }
                "filter" => {
                    let (f, _) = tr_closure(cx, arg(m, 0)?, &[el.clone()], Some(&Ty::Bool))?;
                    Ok(Tr::new(format!("(List.filter {} {})", f, recv.s), it(el)))
                }
                "any" => {
                    let (f, _) = tr_closure(cx, arg(m, 0)?, &[el], Some(&Ty::Bool))?;
                    Ok(Tr::new(format!("(List.any {} {})", recv.s, f), Ty::Bool))
                }
                "all" => {
                    let (f, _) = tr_closure(cx, arg(m, 0)?, &[el], Some(&Ty::Bool))?;
                    Ok(Tr::new(format!("(List.all {} {})", recv.s, f), Ty::Bool))
                }
                "fold" if crate::stmt::mentions_rng(cx, quote::ToTokens::to_token_stream(arg(m, 1)?)) => {
                    // `(iter).fold(init, |acc, x| { … rng … })`: the source is threaded through the accumulator
                    let init = tr_expr(cx, arg(m, 0)?, expected)?;
                    let acc_ty = if init.ty == Ty::Int(IntK::Unk) { expected.cloned().unwrap_or(init.ty.clone()) } else { init.ty.clone() };
                    let (f, rng_ln) = tr_rng_closure(cx, arg(m, 1)?, &[acc_ty.clone(), el])?;
                    let tmp = cx.fresh("r");
                    cx.prelude.push(format!("let ({}, {}) := (List.foldl {} ({}, {}) {})\n", tmp, rng_ln, f, init.val(), rng_ln, recv.s));
                    Ok(Tr::new(tmp, acc_ty))
                }
                "choose" if is_list && cx.rng_mode && m.args.len() == 1 => {
                    // `SliceRandom::choose`
                    let r = tr_expr(cx, arg(m, 0)?, Some(&Ty::Rng))?;
                    if r.ty != Ty::Rng {
                        return Err("choose: argument is not the random source".into());
                    }
                    let full = cx.expand_first(&["SliceRandom".to_string()]).unwrap_or_default();
                    if full.first().map(|x| x != "rand").unwrap_or(true) {
                        return Err("choose: not rand's SliceRandom".into());
                    }
                    let tmp = cx.fresh("r");
                    cx.prelude.push(format!("let ({}, {}) := (Statrs.Model.sliceChoose {} {})\n", tmp, r.s, recv.s, r.s));
                    Ok(Tr::new(tmp, Ty::Opt(Box::new(el))))
                }
                "fold" => {
                    let init = tr_expr(cx, arg(m, 0)?, expected)?;
                    let (f, _) = tr_closure(cx, arg(m, 1)?, &[init.ty.clone(), el], Some(&init.ty))?;
                    Ok(Tr::new(format!("(List.foldl {} {} {})", f, init.val(), recv.s), init.ty))
                }
                "sum" => match el {
                    Ty::F64 => Ok(Tr::new(format!("(fsum (RFun.sumZero : α) {})", recv.s), Ty::F64)),
                    Ty::Int(k) => Ok(Tr::new(format!("(List.foldl (· + ·) (0:Int) {})", recv.s), Ty::Int(k))),
                    _ => Err("sum of non-numeric".into()),
                },
                "product" => match el {
                    Ty::F64 => Ok(Tr::new(format!("(fprod (1.0 : α) {})", recv.s), Ty::F64)),
                    Ty::Int(k) => Ok(Tr::new(format!("(List.foldl (· * ·) (1:Int) {})", recv.s), Ty::Int(k))),
                    _ => Err("product of non-numeric".into()),
                },
                "collect" => Ok(Tr::new(recv.s.clone(), Ty::List(Box::new(el)))),
                "contains" if is_list && is_int(&el) => {
                    let x = tr_expr(cx, arg(m, 0)?, Some(&el))?;
                    Ok(Tr::new(format!("(List.elem {} {})", x.s, recv.s), Ty::Bool))
                }
                "position" => {
                    let (f, _) = tr_closure(cx, arg(m, 0)?, &[el], Some(&Ty::Bool))?;
                    Ok(Tr::new(
                        format!("(Option.map (fun (n_ : Nat) => (n_ : Int)) (List.findIdx? {} {}))", f, recv.s),
                        Ty::Opt(Box::new(Ty::Int(IntK::Usize))),
                    ))
                }
                "next" if m.args.is_empty() => {
                    // `iter.next()` on a mutable local iterator: hoisted as `let (n, iter) := listNext iter`
                    let base = match strip(&m.receiver) {
                        Expr::Path(p) if p.path.segments.len() == 1 => p.path.segments[0].ident.to_string(),
                        _ => return Err(".next() on complex place".into()),
                    };
                    let (ln, _) = cx.lookup(&base).ok_or(".next() on unknown")?;
                    let tmp = cx.fresh("nx");
                    cx.prelude.push(format!("let ({}, {}) := (listNext {})\n", tmp, ln, ln));
                    Ok(Tr::new(tmp, Ty::Opt(Box::new(el))))
                }
                _ => {
                    let key = format!("IterStatistics::{}", name);
                    if el == Ty::F64 && cx.idx.fns.contains_key(&key) {
                        return call_fn(cx, &key, Some(&recv), &m.args);
                    }
                    Err(format!("list/iterator method .{}", name))
                }
            }
        }
        t => Err(format!("method .{} on {:?}", name, t)),
    }
}

/// path of a unit-struct distribution of rand (`Open01`, `OpenClosed01`, `Standard`), through the `use` maps
fn rand_unit_distribution(cx: &Ctx, e: &Expr) -> Option<String> {
    let p = match strip(e) {
        Expr::Path(p) => p,
        _ => return None,
    };
    let segs = path_segs(&p.path);
    if segs.len() == 1 && cx.lookup(&segs[0]).is_some() {
        return None;
    }
    let full = cx.expand_first(&segs).unwrap_or(segs.clone());
    if full.len() == 3 && full[0] == "rand" && full[1] == "distributions" {
        return Some(full[2].clone());
    }
    None
}

fn turbofish_first(m: &ExprMethodCall, bind: &std::collections::HashMap<String, Ty>) -> Option<Ty> {
    let t = m.turbofish.as_ref()?;
    match t.args.first()? {
        GenericArgument::Type(Type::Infer(_)) => None,
        GenericArgument::Type(ty) => Some(conv_type(ty, bind)),
        _ => None,
    }
}

/// `rng.<method>(…)` on the random source: the primitives of `Statrs/Model/Rng.lean` (rand 0.8).
/// Every call is hoisted in front of the enclosing statement as `let (v, rng) := prim … rng`.
fn tr_rng_method(cx: &mut Ctx, m: &ExprMethodCall, recv: &Tr, expected: Option<&Ty>) -> R<Tr> {
    let name = m.method.to_string();
    let rng = recv.s.clone();
    if !matches!(strip(&m.receiver), Expr::Path(p) if p.path.segments.len() == 1) {
        return Err("random source is not a plain local".into());
    }
    let hoist = |cx: &mut Ctx, call: String, ty: Ty| -> Tr {
        let tmp = cx.fresh("r");
        cx.prelude.push(format!("let ({}, {}) := ({} {})\n", tmp, rng, call, rng));
        Tr::new(tmp, ty)
    };
    match name.as_str() {
        "gen" if m.args.is_empty() => {
            let ty = turbofish_first(m, &cx.tybind).or_else(|| expected.cloned()).ok_or("rng.gen() at an unknown type")?;
            match ty {
                Ty::F64 => Ok(hoist(cx, "Statrs.Model.genF64 (α := α)".into(), Ty::F64)),
                Ty::Int(IntK::U64) => Ok(hoist(cx, "Statrs.Model.Rng.nextU64".into(), Ty::Int(IntK::U64))),
                t => Err(format!("rng.gen() at type {:?}", t)),
            }
        }
        "next_u64" if m.args.is_empty() => Ok(hoist(cx, "Statrs.Model.Rng.nextU64".into(), Ty::Int(IntK::U64))),
        "gen_bool" if m.args.len() == 1 => {
            let p = tr_expr(cx, arg(m, 0)?, Some(&Ty::F64))?;
            Ok(hoist(cx, format!("Statrs.Model.genBool (α := α) {}", p.s), Ty::Bool))
        }
        "gen_range" if m.args.len() == 1 => {
            let r = match strip(arg(m, 0)?) {
                Expr::Range(r) => r.clone(),
                _ => return Err("gen_range of a non-literal range".into()),
            };
            let (lo_e, hi_e) = match (&r.start, &r.end) {
                (Some(a), Some(b)) => (a, b),
                _ => return Err("gen_range of an open range".into()),
            };
            let closed = matches!(r.limits, RangeLimits::Closed(_));
            let hint = expected.cloned();
            let lo = tr_expr(cx, lo_e, hint.as_ref())?;
            let hi = tr_expr(cx, hi_e, Some(&lo.ty))?;
            let ty = if lo.ty == Ty::Int(IntK::Unk) { hi.ty.clone() } else { lo.ty.clone() };
            match (&ty, closed) {
                (Ty::Int(IntK::I64), true) => Ok(hoist(cx, format!("Statrs.Model.genRangeI64Inclusive {} {}", lo.s, hi.s), ty.clone())),
                (Ty::Int(IntK::Usize), false) => Ok(hoist(cx, format!("Statrs.Model.genRangeUsize {} {}", lo.s, hi.s), ty.clone())),
                (Ty::Int(IntK::U32), false) => Ok(hoist(cx, format!("Statrs.Model.genRangeU32 {} {}", lo.s, hi.s), ty.clone())),
                (Ty::F64, false) => {
                    cx.uses_rngfloat = true;
                    Ok(hoist(cx, format!("Statrs.Model.genRangeF64 (α := α) {} {}", lo.s, hi.s), Ty::F64))
                }
                (t, c) => Err(format!("gen_range at {:?} ({})", t, if c { "inclusive" } else { "exclusive" })),
            }
        }
        "sample" if m.args.len() == 1 => {
            let a = arg(m, 0)?;
            // unit-struct distributions of rand
            if let Some(d) = rand_unit_distribution(cx, a) {
                let ty = turbofish_first(m, &cx.tybind).or_else(|| expected.cloned()).ok_or("rng.sample(..) at an unknown type")?;
                return match (d.as_str(), &ty) {
                    ("Open01", Ty::F64) => Ok(hoist(cx, "Statrs.Model.genOpen01 (α := α)".into(), Ty::F64)),
                    ("OpenClosed01", Ty::F64) => Ok(hoist(cx, "Statrs.Model.genOpenClosed01 (α := α)".into(), Ty::F64)),
                    ("Standard", Ty::F64) => Ok(hoist(cx, "Statrs.Model.genF64 (α := α)".into(), Ty::F64)),
                    (d, t) => Err(format!("rng.sample({}) at {:?}", d, t)),
                };
            }
            let d = tr_expr(cx, a, None)?;
            match &d.ty {
                // `rng.sample(d)`, `d: rand::distributions::Uniform<f64>`
                Ty::RandUniform => {
                    cx.uses_rngfloat = true;
                    Ok(hoist(cx, format!("Statrs.Model.uniformSample (α := α) {}", d.s), Ty::F64))
                }
                // `rng.sample::<T, _>(self)`: `Distribution::<T>::sample(&d, rng)` of a crate distribution
                Ty::Struct(_) => {
                    let ty = turbofish_first(m, &cx.tybind).or_else(|| expected.cloned());
                    let mut args: syn::punctuated::Punctuated<Expr, Token![,]> = Default::default();
                    args.push((*m.receiver).clone());
                    crate::expr::call_sample(cx, &d, ty.as_ref(), &args)
                }
                t => Err(format!("rng.sample of {:?}", t)),
            }
        }
        _ => Err(format!("random-source method .{}", name)),
    }
}

/// closure that captures the random source, as a fold step on `(acc, rng)`:
/// `(fun st_ x => match st_ with | (acc, rng) => <body as a function body returning (value, rng)>)`.
/// Returns the Lean closure and the Lean name of the captured source.
fn tr_rng_closure(cx: &mut Ctx, e: &Expr, ptys: &[Ty]) -> R<(String, String)> {
    let c = match strip(e) {
        Expr::Closure(c) => c,
        _ => return Err("expected a closure".into()),
    };
    if c.inputs.len() != ptys.len() || ptys.len() != 2 {
        return Err("fold closure arity".into());
    }
    // the (single) captured source
    let mut ids = std::collections::BTreeSet::new();
    crate::loops::idents_in(quote::ToTokens::to_token_stream(&c.body), &mut ids);
    let rngs: Vec<(String, String)> = ids.iter().filter_map(|n| match cx.lookup(n) { Some((ln, Ty::Rng)) => Some((n.clone(), ln)), _ => None }).collect();
    if rngs.len() != 1 {
        return Err("closure capturing several random sources".into());
    }
    let (rng_rust, rng_ln) = rngs[0].clone();
    let body_stmts: Vec<Stmt> = match strip(&c.body) {
        Expr::Block(b) => b.block.stmts.clone(),
        other => vec![Stmt::Expr(other.clone(), None)],
    };
    // translate the body as a function body whose `&mut` parameter is the source
    let saved_out = std::mem::replace(&mut cx.out_params, vec![rng_rust.clone()]);
    let saved_mut_self = std::mem::replace(&mut cx.mut_self, true);
    let saved_vd = std::mem::replace(&mut cx.value_depth, 0);
    let saved_loops = std::mem::take(&mut cx.loop_ctx);
    let saved_ret = std::mem::replace(&mut cx.ret, ptys[0].clone());
    let saved_prelude = std::mem::take(&mut cx.prelude);
    let saved_scopes = cx.scopes.clone();
    cx.push();
    let res: R<(String, String)> = (|| {
        let pa = tr_pat(cx, &c.inputs[0], &ptys[0])?;
        let pb = tr_pat(cx, &c.inputs[1], &ptys[1])?;
        let ret_ty = ptys[0].clone();
        let body = crate::stmt::tr_stmts(cx, &body_stmts, &crate::stmt::Cont::Value(Some(ret_ty)))?;
        if !cx.prelude.is_empty() {
            return Err("dangling side effect in a closure".into());
        }
        Ok((format!("(fun st_ {} => match st_ with\n | ({}, {}) =>\n{})", pb, pa, rng_ln, body.val()), rng_ln.clone()))
    })();
    cx.scopes = saved_scopes;
    cx.prelude = saved_prelude;
    cx.ret = saved_ret;
    cx.loop_ctx = saved_loops;
    cx.value_depth = saved_vd;
    cx.mut_self = saved_mut_self;
    cx.out_params = saved_out;
    res
}
