//! Statement / block translation (SSA for `mut`, early returns, loops lifted to fuelled aux defs).
use crate::ctx::*;
use crate::expr::*;
use crate::index::*;
use quote::ToTokens;
use std::collections::BTreeSet;
use syn::visit::Visit;
use syn::*;

pub enum Cont<'b> {
    /// bind the block's value to a pattern, then continue (for `let p = match/if { ..return.. }`)
    LetBind(&'b Pat, Option<Ty>, &'b [Stmt], &'b Cont<'b>),
    Value(Option<Ty>),
    Tuple(Vec<String>),
    Seq(&'b [Stmt], &'b Cont<'b>),
    LoopNext,
}

pub const LOOP_FUEL: &str = "loopFuel";

struct JumpFinder {
    found: bool,
    loops: usize,
}
impl<'ast> Visit<'ast> for JumpFinder {
    fn visit_expr(&mut self, e: &'ast Expr) {
        match e {
            Expr::Return(_) | Expr::Try(_) => self.found = true,
            Expr::Break(_) | Expr::Continue(_) if self.loops == 0 => self.found = true,
            Expr::Closure(_) => {}
            Expr::Loop(_) | Expr::While(_) | Expr::ForLoop(_) => {
                self.loops += 1;
                visit::visit_expr(self, e);
                self.loops -= 1;
            }
            Expr::Macro(m) => {
                let n = m.mac.path.segments.last().unwrap().ident.to_string();
                if matches!(n.as_str(), "panic" | "unreachable" | "assert" | "assert_eq" | "todo" | "unimplemented") {
                    self.found = true;
                }
            }
            _ => visit::visit_expr(self, e),
        }
    }
    fn visit_stmt(&mut self, s: &'ast Stmt) {
        if let Stmt::Macro(m) = s {
            let n = m.mac.path.segments.last().unwrap().ident.to_string();
            if matches!(n.as_str(), "panic" | "unreachable" | "assert" | "assert_eq" | "todo" | "unimplemented") {
                self.found = true;
            }
        }
        visit::visit_stmt(self, s);
    }
}
pub fn has_jump_block(b: &Block) -> bool {
    let mut f = JumpFinder { found: false, loops: 0 };
    f.visit_block(b);
    f.found
}
pub fn has_jump_expr(e: &Expr) -> bool {
    let mut f = JumpFinder { found: false, loops: 0 };
    f.visit_expr(e);
    f.found
}
struct RetFinder {
    found: bool,
}
impl<'ast> Visit<'ast> for RetFinder {
    fn visit_expr(&mut self, e: &'ast Expr) {
        match e {
            Expr::Return(_) | Expr::Try(_) => self.found = true,
            Expr::Closure(_) => {}
            Expr::Macro(m) => {
                let n = m.mac.path.segments.last().unwrap().ident.to_string();
                if matches!(n.as_str(), "panic" | "unreachable" | "assert" | "assert_eq" | "todo" | "unimplemented") {
                    self.found = true;
                }
            }
            _ => visit::visit_expr(self, e),
        }
    }
    fn visit_stmt(&mut self, s: &'ast Stmt) {
        if let Stmt::Macro(m) = s {
            let n = m.mac.path.segments.last().unwrap().ident.to_string();
            if matches!(n.as_str(), "panic" | "unreachable" | "assert" | "assert_eq" | "todo" | "unimplemented") {
                self.found = true;
            }
        }
        visit::visit_stmt(self, s);
    }
}

struct AssignFinder {
    names: Vec<String>,
    /// every single-segment path mentioned (closures included): a mention of the random source is a use of it
    mentions: Vec<String>,
}
impl AssignFinder {
    fn base(e: &Expr) -> Option<String> {
        match e {
            Expr::Path(p) if p.path.segments.len() == 1 => Some(p.path.segments[0].ident.to_string()),
            Expr::Index(i) => Self::base(&i.expr),
            Expr::Field(f) => Self::base(&f.base),
            Expr::Paren(p) => Self::base(&p.expr),
            Expr::Unary(ExprUnary { op: UnOp::Deref(_), expr, .. }) => Self::base(expr),
            _ => None,
        }
    }
}
impl<'ast> Visit<'ast> for AssignFinder {
    fn visit_expr(&mut self, e: &'ast Expr) {
        match e {
            Expr::Assign(a) => {
                if let Some(n) = Self::base(&a.left) {
                    self.names.push(n);
                }
                visit::visit_expr(self, &a.right);
            }
            Expr::Binary(b) => {
                use BinOp::*;
                if matches!(b.op, AddAssign(_) | SubAssign(_) | MulAssign(_) | DivAssign(_) | RemAssign(_)) {
                    if let Some(n) = Self::base(&b.left) {
                        self.names.push(n);
                    }
                }
                visit::visit_expr(self, e);
            }
            Expr::MethodCall(m) => {
                let n = m.method.to_string();
                if matches!(n.as_str(), "next" | "swap" | "push" | "pop" | "fill" | "sort_by" | "dedup" | "append" | "insert" | "remove" | "push_str") {
                    if let Some(b) = Self::base(&m.receiver) {
                        self.names.push(b);
                    }
                }
                visit::visit_expr(self, e);
            }
            Expr::Reference(r) if r.mutability.is_some() => {
                // `f(&mut x)` may assign x
                if let Some(b) = Self::base(&r.expr) {
                    self.names.push(b);
                }
                visit::visit_expr(self, e);
            }
            Expr::Closure(c) => {
                let mut ids = BTreeSet::new();
                crate::loops::idents_in(c.to_token_stream(), &mut ids);
                self.mentions.extend(ids);
            }
            Expr::Path(p) if p.path.segments.len() == 1 => {
                self.mentions.push(p.path.segments[0].ident.to_string());
            }
            _ => visit::visit_expr(self, e),
        }
    }
}

fn assigned_outer(cx: &Ctx, toks: &dyn Fn(&mut AssignFinder)) -> Vec<String> {
    let mut f = AssignFinder { names: vec![], mentions: vec![] };
    toks(&mut f);
    let mut seen = BTreeSet::new();
    let mut out = vec![];
    for n in f.names {
        if cx.lookup(&n).is_some() && seen.insert(n.clone()) {
            out.push(n);
        }
    }
    // the random source is advanced by every use (`rng.gen()`, `f(rng, …)`, a closure that captures it)
    if cx.rng_mode {
        for n in f.mentions {
            if matches!(cx.lookup(&n), Some((_, Ty::Rng))) && seen.insert(n.clone()) {
                out.push(n);
            }
        }
    }
    out
}

fn tuple_of(cx: &Ctx, vars: &[String]) -> (String, Ty) {
    if vars.is_empty() {
        return ("()".into(), Ty::Unit);
    }
    let items: Vec<(String, Ty)> = vars.iter().map(|v| cx.lookup(v).unwrap()).collect();
    if items.len() == 1 {
        return (items[0].0.clone(), items[0].1.clone());
    }
    (
        format!("({})", items.iter().map(|x| x.0.clone()).collect::<Vec<_>>().join(", ")),
        Ty::Tuple(items.iter().map(|x| x.1.clone()).collect()),
    )
}

/// does the token stream mention a local that holds the random source?
pub fn mentions_rng(cx: &Ctx, ts: proc_macro2::TokenStream) -> bool {
    if !cx.rng_mode {
        return false;
    }
    let mut ids = BTreeSet::new();
    crate::loops::idents_in(ts, &mut ids);
    ids.iter().any(|n| matches!(cx.lookup(n), Some((_, Ty::Rng))))
}

pub fn tr_block_value(cx: &mut Ctx, b: &Block, expected: Option<&Ty>) -> R<Tr> {
    if mentions_rng(cx, b.to_token_stream()) {
        // the advanced source would be lost when the block's value is taken
        return Err("use of the random source inside a value block".into());
    }
    cx.push();
    cx.value_depth += 1;
    let saved_prelude = std::mem::take(&mut cx.prelude);
    let r = tr_stmts(cx, &b.stmts, &Cont::Value(expected.cloned()));
    cx.prelude = saved_prelude;
    cx.value_depth -= 1;
    cx.pop();
    r
}

fn emit_return(cx: &Ctx, v: String) -> String {
    let v = if cx.mut_self && cx.value_depth == 0 { cx.with_outs(&v) } else { v };
    if cx.loop_ctx.is_empty() || cx.value_depth > 0 {
        v
    } else {
        format!("(LoopR.ret {})", v)
    }
}

fn finish(cx: &mut Ctx, k: &Cont) -> R<Tr> {
    match k {
        Cont::Value(t) => {
            let _ = t;
            if cx.mut_self && cx.value_depth == 0 && cx.loop_ctx.is_empty() {
                return Ok(Tr::new(cx.with_outs("()"), Ty::Unit));
            }
            Ok(Tr::new("()", Ty::Unit))
        }
        Cont::Tuple(vars) => {
            let (s, t) = tuple_of(cx, vars);
            Ok(Tr::new(s, t))
        }
        Cont::Seq(rest, k2) => tr_stmts(cx, rest, k2),
        Cont::LetBind(..) => Err("let-bound block without value".into()),
        Cont::LoopNext => {
            let lc = cx.loop_ctx.last().unwrap().clone();
            let args: Vec<String> = lc.state.iter().map(|(r, _, _)| cx.lookup(r).map(|x| x.0).unwrap_or(r.clone())).collect();
            Ok(Tr::new(format!("({} {})", lc.call, args.join(" ")).replace(" )", ")"), Ty::Never))
        }
    }
}

/// syntactic type of an expression (enough for `let mut x; … x = <float expression>;`)
fn quick_type(cx: &Ctx, e: &Expr) -> Option<Ty> {
    match strip(e) {
        Expr::Lit(ExprLit { lit: Lit::Float(_), .. }) => Some(Ty::F64),
        Expr::Lit(ExprLit { lit: Lit::Bool(_), .. }) => Some(Ty::Bool),
        Expr::Path(p) if p.path.segments.len() == 1 => cx.lookup(&p.path.segments[0].ident.to_string()).map(|x| x.1),
        Expr::Unary(u) => quick_type(cx, &u.expr),
        Expr::Binary(b) => quick_type(cx, &b.left).or_else(|| quick_type(cx, &b.right)),
        Expr::Cast(c) => Some(conv_type(&c.ty, &cx.tybind)),
        Expr::Call(c) => match strip(&c.func) {
            Expr::Path(p) => match cx.resolve(&path_segs(&p.path)) {
                Resolved::Fn(k) => cx.idx.fns.get(&k).map(|f| f.ret.clone()),
                _ => None,
            },
            _ => None,
        },
        Expr::MethodCall(m) => match quick_type(cx, &m.receiver) {
            Some(Ty::F64) if !matches!(m.method.to_string().as_str(), "is_nan" | "is_infinite" | "is_finite") => Some(Ty::F64),
            _ => None,
        },
        _ => None,
    }
}

fn first_assign_type(cx: &Ctx, name: &str, stmts: &[Stmt]) -> Option<Ty> {
    struct F<'c, 'a> {
        cx: &'c Ctx<'a>,
        name: String,
        found: Option<Ty>,
    }
    impl<'ast, 'c, 'a> Visit<'ast> for F<'c, 'a> {
        fn visit_expr(&mut self, e: &'ast Expr) {
            if self.found.is_some() {
                return;
            }
            if let Expr::Assign(a) = e {
                if let Expr::Path(p) = strip(&a.left) {
                    if p.path.is_ident(&self.name) {
                        self.found = quick_type(self.cx, &a.right);
                        return;
                    }
                }
            }
            visit::visit_expr(self, e);
        }
    }
    let mut f = F { cx, name: name.to_string(), found: None };
    for s in stmts {
        f.visit_stmt(s);
    }
    f.found
}

fn is_panic_macro(mac: &Macro) -> bool {
    let n = mac.path.segments.last().unwrap().ident.to_string();
    matches!(n.as_str(), "panic" | "unreachable" | "todo" | "unimplemented")
}

fn ret_lean_ty(cx: &Ctx) -> Ty {
    cx.ret.clone()
}

pub fn tr_stmts(cx: &mut Ctx, stmts: &[Stmt], k: &Cont) -> R<Tr> {
    if stmts.is_empty() {
        return finish(cx, k);
    }
    let (s, rest) = (&stmts[0], &stmts[1..]);
    match s {
        Stmt::Item(Item::Use(u)) => {
            let mut mi = ModInfo { path: vec![], file: String::new(), uses: Default::default(), globs: vec![] };
            collect_uses(&[Item::Use(u.clone())], &mut mi);
            for (a, p) in mi.uses {
                cx.local_uses.insert(a, p);
            }
            tr_stmts(cx, rest, k)
        }
        Stmt::Item(Item::Const(c)) => {
            let ty = conv_type(&c.ty, &cx.tybind);
            let v = tr_expr(cx, &c.expr, Some(&ty))?;
            let ln = cx.bind(&c.ident.to_string(), ty);
            let r = tr_stmts(cx, rest, k)?;
            Ok(Tr { s: format!("let {} := {}\n{}", ln, v.val(), r.s), ty: r.ty, prop: r.prop })
        }
        Stmt::Item(Item::Fn(f)) if cx.rng_mode => {
            // nested `fn` (cannot capture locals): lifted to `<outer>.<name>`
            let name = f.sig.ident.to_string();
            let mut fi = mk_fn(&cx.module, "", None, None, vec![], &f.sig, &f.block, false, &Default::default(), false, false);
            if fi.generic {
                return Err(format!("nested generic fn {}", name));
            }
            let outer = cx.idx.fns.values().find(|x| x.lean_name == cx.fn_lean_name).ok_or("nested fn: unknown outer function")?;
            fi.key = format!("{}::{}", outer.key, name);
            fi.lean_name = format!("{}.{}", cx.fn_lean_name, name);
            fi.file = outer.file.clone();
            let fix_idx_types = |t: &mut Ty| {
                if let Ty::Unknown(n) = t {
                    let base = n.split('<').next().unwrap().trim().rsplit("::").next().unwrap().trim().to_string();
                    if cx.idx.structs.contains_key(&base) {
                        *t = Ty::Struct(base);
                    } else if cx.idx.enums.contains_key(&base) {
                        *t = Ty::Enum(base);
                    } else if let Some(a) = cx.idx.aliases.get(&base) {
                        *t = a.clone();
                    }
                }
            };
            for (_, t) in fi.params.iter_mut() {
                fix_idx_types(t);
            }
            fix_idx_types(&mut fi.ret);
            let t = crate::translate_fn(cx.idx, &fi)?;
            cx.aux_defs.push(t.text.trim_end().to_string() + "\n");
            for d in t.deps {
                cx.deps.insert(d);
            }
            for d in t.const_deps {
                cx.const_deps.insert(d);
            }
            for d in t.sf_calls {
                cx.sf_calls.insert(d);
            }
            cx.uses_rngfloat |= t.uses_rngfloat;
            cx.local_fns.insert(name, fi);
            tr_stmts(cx, rest, k)
        }
        Stmt::Item(_) => Err("nested item".into()),
        Stmt::Local(l) if l.init.is_none() && cx.rng_mode => {
            // `let mut x;` (assigned before use): any initial value will do; the type comes from the first assignment
            let name = match &l.pat {
                Pat::Ident(i) => i.ident.to_string(),
                _ => return Err("let without initialiser (pattern)".into()),
            };
            let ty = first_assign_type(cx, &name, rest).ok_or("let without initialiser: type of the first assignment unknown")?;
            let lt = cx.lean_ty(&ty)?;
            let pat = bind_let_pat(cx, &l.pat, &ty)?;
            let r = tr_stmts(cx, rest, k)?;
            Ok(Tr { s: format!("let {} : {} := panicV\n{}", pat, lt, r.s), ty: r.ty, prop: r.prop })
        }
        Stmt::Local(l) => {
            let init = l.init.as_ref().ok_or("let without initialiser")?;
            if init.diverge.is_some() {
                return Err("let-else".into());
            }
            let declared: Option<Ty> = match &l.pat {
                Pat::Type(t) => Some(conv_type(&t.ty, &cx.tybind)),
                _ => None,
            };
            // `let x = e?;`
            if let Expr::Try(t) = strip(&init.expr) {
                let inner = tr_expr(cx, &t.expr, None)?;
                let vty = match &inner.ty {
                    Ty::Res(v, _) | Ty::Opt(v) => (**v).clone(),
                    t => return Err(format!("? on {:?}", t)),
                };
                let is_res = matches!(inner.ty, Ty::Res(..));
                let pat = bind_let_pat(cx, &l.pat, &vty)?;
                let r = tr_stmts(cx, rest, k)?;
                let conv = match (&inner.ty, &cx.ret) {
                    (Ty::Res(_, e1), Ty::Res(_, e2)) if e1 != e2 => {
                        if let Ty::Enum(n2) = &**e2 {
                            let k = format!("{}::from", n2);
                            if cx.idx.fns.contains_key(&k) {
                                cx.deps.insert(k);
                                format!("(.error ({}.from (α := α) e_))", n2)
                            } else {
                                return Err("? with error conversion".into());
                            }
                        } else {
                            return Err("? with error conversion".into());
                        }
                    }
                    _ => "(.error e_)".to_string(),
                };
                let err = if is_res { emit_return(cx, conv) } else { emit_return(cx, "none".into()) };
                let s = if is_res {
                    format!("match {} with\n | .error e_ => {}\n | .ok {} =>\n{}", inner.s, err, pat, r.s)
                } else {
                    format!("match {} with\n | none => {}\n | some {} =>\n{}", inner.s, err, pat, r.s)
                };
                return Ok(Tr { s: format!("({})", s), ty: r.ty, prop: false });
            }
            let hint = declared.clone().or_else(|| None);
            if has_jump_expr(&init.expr) && matches!(strip(&init.expr), Expr::Match(_) | Expr::If(_) | Expr::Block(_)) {
                let lb = Cont::LetBind(&l.pat, declared.clone(), rest, k);
                let st = [Stmt::Expr((*init.expr).clone(), None)];
                return tr_stmts_branching(cx, &st[0], &lb);
            }
            let v = tr_expr(cx, &init.expr, hint.as_ref())?;
            let pre = cx.take_prelude();
            let vty = match (&declared, &v.ty) {
                (Some(d), _) => d.clone(),
                (None, t) => t.clone(),
            };
            let pat = bind_let_pat(cx, &l.pat, &vty)?;
            let r = tr_stmts(cx, rest, k)?;
            Ok(Tr { s: format!("{}let {} := {}\n{}", pre, pat, v.val(), r.s), ty: r.ty, prop: r.prop })
        }
        Stmt::Macro(m) => stmt_macro(cx, &m.mac, rest, k),
        Stmt::Expr(e, semi) => {
            let is_last = rest.is_empty();
            // tail expression
            if is_last && semi.is_none() && matches!(k, Cont::Value(Some(Ty::Unit))) && matches!(e, Expr::MethodCall(_)) {
                return stmt_expr(cx, e, rest, k);
            }
            if is_last && semi.is_none() {
                if let Cont::LetBind(pat, declared, rest2, k2) = k {
                    if !matches!(e, Expr::Return(_) | Expr::Break(_) | Expr::Continue(_)) && !(matches!(e, Expr::Macro(m) if is_panic_macro(&m.mac))) {
                        if has_jump_expr(e) && matches!(strip(e), Expr::Match(_) | Expr::If(_) | Expr::Block(_)) {
                            return tr_stmts_branching(cx, s, k);
                        }
                        let v = tr_expr(cx, e, declared.as_ref())?;
                        let pre = cx.take_prelude();
                        let vty = declared.clone().unwrap_or(v.ty.clone());
                        let p = bind_let_pat(cx, pat, &vty)?;
                        let r = tr_stmts(cx, rest2, k2)?;
                        return Ok(Tr { s: format!("{}let {} := {}\n{}", pre, p, v.val(), r.s), ty: r.ty, prop: r.prop });
                    }
                }
                if cx.mut_self && cx.value_depth == 0 && matches!(k, Cont::Value(_)) && matches!(strip(e), Expr::Match(_) | Expr::If(_)) {
                    if let Expr::If(i) = strip(e) {
                        if i.else_branch.is_some() {
                            return tr_stmts_branching(cx, s, k);
                        }
                    } else {
                        return tr_stmts_branching(cx, s, k);
                    }
                }
                if let Cont::Value(t) = k {
                    if !matches!(e, Expr::Return(_) | Expr::While(_) | Expr::Loop(_) | Expr::ForLoop(_) | Expr::Break(_) | Expr::Continue(_))
                        && !(matches!(e, Expr::If(i) if i.else_branch.is_none()))
                    {
                        if let Expr::Macro(m) = e {
                            if is_panic_macro(&m.mac) {
                                return Ok(Tr::new(emit_return(cx, "panicV".into()), t.clone().unwrap_or(Ty::Never)));
                            }
                        }
                        let v = tr_expr(cx, e, t.as_ref())?;
                        let pre = cx.take_prelude();
                        if cx.mut_self && cx.value_depth == 0 && cx.loop_ctx.is_empty() {
                            return Ok(Tr::new(format!("{}{}", pre, cx.with_outs(&v.val())), v.ty));
                        }
                        if pre.is_empty() {
                            return Ok(v);
                        }
                        return Ok(Tr::new(format!("{}{}", pre, v.val()), v.ty));
                    }
                }
            }
            stmt_expr(cx, e, rest, k)
        }
    }
}

/// A branching expression in tail position of a block whose continuation is `k`
/// (each branch's value flows into `k`).
fn tr_stmts_branching(cx: &mut Ctx, s: &Stmt, k: &Cont) -> R<Tr> {
    let e = match s {
        Stmt::Expr(e, _) => e,
        _ => return Err("branching".into()),
    };
    match strip(e) {
        Expr::If(i) if i.else_branch.is_some() && !matches!(strip(&i.cond), Expr::Let(_)) => {
            let c = tr_expr(cx, &i.cond, Some(&Ty::Bool))?;
            let pre = cx.take_prelude();
            let a = with_scopes_saved(cx, |cx| {
                cx.push();
                tr_stmts(cx, &i.then_branch.stmts, k)
            })?;
            let els = &i.else_branch.as_ref().unwrap().1;
            let b = with_scopes_saved(cx, |cx| {
                let st = [Stmt::Expr((**els).clone(), None)];
                tr_stmts_branching(cx, &st[0], k)
            })?;
            Ok(Tr::new(format!("{}(if {} then\n{}\n else\n{})", pre, c.as_prop(), a.val(), b.val()), join_ty(&a.ty, &b.ty)))
        }
        Expr::Match(m) if m.arms.iter().any(|a| a.guard.is_some()) => {
            // integer scrutinee, literal / wildcard patterns, optional guards: an if-chain in CPS
            let scrut = tr_expr(cx, &m.expr, None)?;
            let pre = cx.take_prelude();
            if !is_int(&scrut.ty) {
                return Err("match guard on non-integer scrutinee".into());
            }
            let mut parts: Vec<(Option<String>, Tr)> = vec![];
            let mut ty = Ty::Never;
            for arm in &m.arms {
                let pc = match &arm.pat {
                    Pat::Wild(_) => None,
                    Pat::Lit(l) => match &l.lit {
                        Lit::Int(i) => Some(format!("({} = ({} : Int))", scrut.s, i.base10_digits())),
                        _ => return Err("match guard with non-int literal".into()),
                    },
                    _ => return Err("match guard with binding pattern".into()),
                };
                let gc = match &arm.guard {
                    Some((_, g)) => Some(tr_expr(cx, g, Some(&Ty::Bool))?.as_prop()),
                    None => None,
                };
                if !cx.prelude.is_empty() {
                    return Err("side effect in match guard".into());
                }
                let c = match (pc, gc) {
                    (None, None) => None,
                    (Some(a), None) => Some(a),
                    (None, Some(b)) => Some(b),
                    (Some(a), Some(b)) => Some(format!("({} ∧ {})", a, b)),
                };
                let body = with_scopes_saved(cx, |cx| {
                    cx.push();
                    let st = [Stmt::Expr((*arm.body).clone(), None)];
                    tr_stmts_branching(cx, &st[0], k)
                })?;
                ty = join_ty(&ty, &body.ty);
                parts.push((c, body));
            }
            let mut out = emit_return(cx, "panicV".into());
            for (c, b) in parts.into_iter().rev() {
                out = match c {
                    None => b.val(),
                    Some(c) => format!("(if {} then\n{}\n else\n{})", c, b.val(), out),
                };
            }
            Ok(Tr::new(format!("{}{}", pre, out), ty))
        }
        Expr::Match(m) => {
            let scrut = tr_expr(cx, &m.expr, None)?;
            let pre = cx.take_prelude();
            let mut arms = vec![];
            let mut ty = Ty::Never;
            for arm in &m.arms {
                if arm.guard.is_some() {
                    return Err("match guard".into());
                }
                let r = with_scopes_saved(cx, |cx| {
                    cx.push();
                    let pat = tr_pat(cx, &arm.pat, &scrut.ty)?;
                    let st = [Stmt::Expr((*arm.body).clone(), None)];
                    let body = tr_stmts_branching(cx, &st[0], k)?;
                    Ok((pat, body))
                })?;
                ty = join_ty(&ty, &r.1.ty);
                arms.push(format!(" | {} =>\n{}", r.0, r.1.val()));
            }
            Ok(Tr::new(format!("{}(match {} with\n{})", pre, scrut.val(), arms.join("\n")), ty))
        }
        Expr::Block(b) => with_scopes_saved(cx, |cx| {
            cx.push();
            tr_stmts(cx, &b.block.stmts, k)
        }),
        _ => tr_stmts(cx, std::slice::from_ref(s), k),
    }
}

fn bind_let_pat(cx: &mut Ctx, p: &Pat, ty: &Ty) -> R<String> {
    // fresh Lean names for variables that shadow an outer-scope binding
    match p {
        Pat::Ident(i) => {
            let n = i.ident.to_string();
            if i.mutability.is_some() {
                cx.muts.insert(n.clone());
            }
            let in_current = cx.scopes.last().unwrap().contains_key(&n);
            if !in_current && cx.lookup(&n).is_some() {
                let fresh = cx.fresh(&lean_ident(&n));
                cx.scopes.last_mut().unwrap().insert(n, (fresh.clone(), ty.clone()));
                Ok(fresh)
            } else {
                Ok(cx.bind(&n, ty.clone()))
            }
        }
        Pat::Type(t) => {
            let ty2 = conv_type(&t.ty, &cx.tybind);
            bind_let_pat(cx, &t.pat, &ty2)
        }
        _ => tr_pat(cx, p, ty),
    }
}

fn stmt_macro(cx: &mut Ctx, mac: &Macro, rest: &[Stmt], k: &Cont) -> R<Tr> {
    let n = mac.path.segments.last().unwrap().ident.to_string();
    match n.as_str() {
        "assert" | "assert_eq" | "assert_ne" => {
            let args = parse_macro_args(mac)?;
            let c = if n == "assert" {
                tr_expr(cx, &args[0], Some(&Ty::Bool))?.as_prop()
            } else {
                let a = tr_expr(cx, &args[0], None)?;
                let b = tr_expr(cx, &args[1], Some(&a.ty))?;
                let eq = if a.ty == Ty::F64 { format!("(({} == {}) = true)", a.s, b.s) } else { format!("({} = {})", a.val(), b.val()) };
                if n == "assert_eq" {
                    eq
                } else {
                    format!("(¬ {})", eq)
                }
            };
            let r = tr_stmts(cx, rest, k)?;
            Ok(Tr { s: format!("(if {} then\n{}\n else {})", c, r.s, emit_return(cx, "panicV".into())), ty: r.ty, prop: false })
        }
        "debug_assert" => tr_stmts(cx, rest, k),
        "panic" | "unreachable" | "todo" | "unimplemented" => Ok(Tr::new(emit_return(cx, "panicV".into()), Ty::Never)),
        _ => Err(format!("statement macro {}!", n)),
    }
}

fn with_scopes_saved<T>(cx: &mut Ctx, f: impl FnOnce(&mut Ctx) -> R<T>) -> R<T> {
    let saved = cx.scopes.clone();
    let r = f(cx);
    cx.scopes = saved;
    r
}

fn join_ty(a: &Ty, b: &Ty) -> Ty {
    if matches!(a, Ty::Never) {
        b.clone()
    } else {
        a.clone()
    }
}

fn stmt_if(cx: &mut Ctx, i: &ExprIf, rest: &[Stmt], k: &Cont) -> R<Tr> {
    let else_jump = i.else_branch.as_ref().map(|(_, e)| has_jump_expr(e)).unwrap_or(false);
    let iflet = matches!(strip(&i.cond), Expr::Let(_));
    if has_jump_block(&i.then_branch) || else_jump || iflet {
        // inline the continuation into both branches
        let seq = Cont::Seq(rest, k);
        let (head, bind_pat): (String, Option<(Tr, &Pat)>) = if let Expr::Let(l) = strip(&i.cond) {
            let scrut = tr_expr(cx, &l.expr, None)?;
            (String::new(), Some((scrut, &*l.pat)))
        } else {
            (tr_expr(cx, &i.cond, Some(&Ty::Bool))?.as_prop(), None)
        };
        let pre = cx.take_prelude();
        let mut pat_s = String::new();
        let a = with_scopes_saved(cx, |cx| {
            cx.push();
            if let Some((scrut, p)) = &bind_pat {
                pat_s = tr_pat(cx, p, &scrut.ty)?;
            }
            tr_stmts(cx, &i.then_branch.stmts, &seq)
        })?;
        let b = with_scopes_saved(cx, |cx| match &i.else_branch {
            None => tr_stmts(cx, rest, k),
            Some((_, e)) => match &**e {
                Expr::Block(bl) => {
                    cx.push();
                    tr_stmts(cx, &bl.block.stmts, &seq)
                }
                Expr::If(i2) => stmt_if(cx, i2, rest, k),
                _ => Err("odd else".into()),
            },
        })?;
        let ty = join_ty(&a.ty, &b.ty);
        if let Some((scrut, _)) = bind_pat {
            return Ok(Tr::new(format!("{}(match {} with\n | {} =>\n{}\n | _ =>\n{})", pre, scrut.val(), pat_s, a.val(), b.val()), ty));
        }
        return Ok(Tr::new(format!("{}(if {} then\n{}\n else\n{})", pre, head, a.val(), b.val()), ty));
    }
    // no jumps: SSA on the assigned outer variables
    let vars = assigned_outer(cx, &|f| {
        f.visit_expr_if(i);
    });
    if vars.is_empty() {
        return tr_stmts(cx, rest, k);
    }
    let c = tr_expr(cx, &i.cond, Some(&Ty::Bool))?;
    let pre0 = cx.take_prelude();
    let tup = Cont::Tuple(vars.clone());
    let a = with_scopes_saved(cx, |cx| {
        cx.push();
        tr_stmts(cx, &i.then_branch.stmts, &tup)
    })?;
    let b = with_scopes_saved(cx, |cx| match &i.else_branch {
        None => finish(cx, &tup),
        Some((_, e)) => match &**e {
            Expr::Block(bl) => {
                cx.push();
                tr_stmts(cx, &bl.block.stmts, &tup)
            }
            Expr::If(i2) => stmt_if(cx, i2, &[], &tup),
            _ => Err("odd else".into()),
        },
    })?;
    let (pat, _) = tuple_of(cx, &vars);
    let r = tr_stmts(cx, rest, k)?;
    Ok(Tr { s: format!("{}let {} := (if {} then\n{}\n else\n{})\n{}", pre0, pat, c.as_prop(), a.s, b.s, r.s), ty: r.ty, prop: r.prop })
}

fn assign(cx: &mut Ctx, left: &Expr, newval: impl FnOnce(&mut Ctx, &Tr) -> R<String>) -> R<(String, String)> {
    // returns (lean lhs name, rhs)
    match strip(left) {
        Expr::Path(p) if p.path.segments.len() == 1 => {
            let n = p.path.segments[0].ident.to_string();
            let (ln, ty) = cx.lookup(&n).ok_or(format!("assignment to unknown {}", n))?;
            let cur = Tr::new(ln.clone(), ty);
            let v = newval(cx, &cur)?;
            Ok((ln, v))
        }
        Expr::Index(ix) => {
            let base = match strip(&ix.expr) {
                Expr::Path(p) if p.path.segments.len() == 1 => p.path.segments[0].ident.to_string(),
                _ => return Err("assignment to complex place".into()),
            };
            if base == "self" {
                if let Some(Ty::Struct(sn)) = cx.tybind.get("Self").cloned() {
                    if sn == "Data" {
                        let i = tr_expr(cx, &ix.index, Some(&Ty::Int(IntK::Usize)))?;
                        let cur = Tr::new(format!("(listGet self.f_0 {})", i.s), Ty::F64);
                        let v = newval(cx, &cur)?;
                        return Ok(("self".into(), format!("{{ self with f_0 := (listSet self.f_0 {} {}) }}", i.s, v)));
                    }
                }
            }
            let (ln, ty) = cx.lookup(&base).ok_or("assignment to unknown")?;
            let el = match &ty {
                Ty::List(t) => (**t).clone(),
                _ => return Err("index-assign on non-list".into()),
            };
            let i = tr_expr(cx, &ix.index, Some(&Ty::Int(IntK::Usize)))?;
            let cur = Tr::new(format!("(listGet {} {})", ln, i.s), el);
            let v = newval(cx, &cur)?;
            Ok((ln.clone(), format!("(listSet {} {} {})", ln, i.s, v)))
        }
        Expr::Field(f) => {
            let base = match strip(&f.base) {
                Expr::Path(p) if p.path.segments.len() == 1 => p.path.segments[0].ident.to_string(),
                _ => return Err("assignment to nested field".into()),
            };
            let (ln, ty) = if base == "self" {
                ("self".to_string(), cx.tybind.get("Self").cloned().ok_or("self")?)
            } else {
                cx.lookup(&base).ok_or("assignment to unknown")?
            };
            let cur = tr_expr(cx, left, None)?;
            let fname = match &f.member {
                Member::Named(i) => i.to_string(),
                Member::Unnamed(i) => i.index.to_string(),
            };
            let _ = ty;
            let v = newval(cx, &cur)?;
            Ok((ln.clone(), format!("{{ {} with f_{} := {} }}", ln, fname, v)))
        }
        _ => Err("assignment to complex place".into()),
    }
}

fn stmt_expr(cx: &mut Ctx, e: &Expr, rest: &[Stmt], k: &Cont) -> R<Tr> {
    match e {
        Expr::Return(r) => {
            let rt = ret_lean_ty(cx);
            let v = match &r.expr {
                Some(x) => {
                    if let Expr::Macro(m) = strip(x) {
                        if is_panic_macro(&m.mac) {
                            return Ok(Tr::new(emit_return(cx, "panicV".into()), Ty::Never));
                        }
                    }
                    tr_expr(cx, x, Some(&rt))?.val()
                }
                None => "()".into(),
            };
            let pre = cx.take_prelude();
            Ok(Tr::new(format!("{}{}", pre, emit_return(cx, v)), Ty::Never))
        }
        Expr::Break(b) => {
            if b.label.is_some() || b.expr.is_some() {
                return Err("labelled/valued break".into());
            }
            let lc = cx.loop_ctx.last().ok_or("break outside loop")?.clone();
            let names: Vec<String> = lc.state.iter().map(|x| x.0.clone()).collect();
            let (t, _) = tuple_of(cx, &names);
            Ok(Tr::new(format!("(LoopR.done {})", t), Ty::Never))
        }
        Expr::Continue(c) => {
            if c.label.is_some() {
                return Err("labelled continue".into());
            }
            finish(cx, &Cont::LoopNext)
        }
        Expr::Assign(a) => {
            let right = (*a.right).clone();
            let (ln, v) = assign(cx, &a.left, |cx, cur| Ok(tr_expr(cx, &right, Some(&cur.ty))?.val()))?;
            let pre = cx.take_prelude();
            let r = tr_stmts(cx, rest, k)?;
            Ok(Tr { s: format!("{}let {} := {}\n{}", pre, ln, v, r.s), ty: r.ty, prop: r.prop })
        }
        Expr::Binary(b)
            if matches!(b.op, BinOp::AddAssign(_) | BinOp::SubAssign(_) | BinOp::MulAssign(_) | BinOp::DivAssign(_) | BinOp::RemAssign(_)) =>
        {
            let right = (*b.right).clone();
            let op = b.op;
            let (ln, v) = assign(cx, &b.left, |cx, cur| {
                let r = tr_expr(cx, &right, Some(&cur.ty))?;
                let uns = matches!(&cur.ty, Ty::Int(IntK::U64 | IntK::Usize | IntK::U32));
                let isf = cur.ty == Ty::F64;
                Ok(match op {
                    BinOp::AddAssign(_) => format!("({} + {})", cur.s, r.s),
                    BinOp::SubAssign(_) => {
                        if uns {
                            format!("(usub {} {})", cur.s, r.s)
                        } else {
                            format!("({} - {})", cur.s, r.s)
                        }
                    }
                    BinOp::MulAssign(_) => format!("({} * {})", cur.s, r.s),
                    BinOp::DivAssign(_) => {
                        if isf {
                            format!("({} / {})", cur.s, r.s)
                        } else if uns {
                            format!("(udiv {} {})", cur.s, r.s)
                        } else {
                            format!("(sdiv {} {})", cur.s, r.s)
                        }
                    }
                    BinOp::RemAssign(_) => {
                        if isf {
                            format!("(RFun.fmod {} {})", cur.s, r.s)
                        } else if uns {
                            format!("(umod {} {})", cur.s, r.s)
                        } else {
                            format!("(smod {} {})", cur.s, r.s)
                        }
                    }
                    _ => unreachable!(),
                })
            })?;
            let pre = cx.take_prelude();
            let r = tr_stmts(cx, rest, k)?;
            Ok(Tr { s: format!("{}let {} := {}\n{}", pre, ln, v, r.s), ty: r.ty, prop: r.prop })
        }
        Expr::If(i) => stmt_if(cx, i, rest, k),
        Expr::Block(b) => {
            // nested block statement: flatten with scope
            let seq = Cont::Seq(rest, k);
            cx.push();
            let r = tr_stmts(cx, &b.block.stmts, &seq);
            cx.pop();
            r
        }
        Expr::Macro(m) => stmt_macro(cx, &m.mac, rest, k),
        Expr::MethodCall(m) => {
            let n = m.method.to_string();
            // `self.0.as_mut().swap(i, j)` on a tuple-struct field
            if n == "swap" && m.args.len() == 2 {
                if let Expr::MethodCall(inner) = strip(&m.receiver) {
                    if inner.method == "as_mut" {
                        if let Expr::Field(f) = strip(&inner.receiver) {
                            if let (Expr::Path(bp), Member::Unnamed(ix)) = (strip(&f.base), &f.member) {
                                if bp.path.is_ident("self") {
                                    let i = tr_expr(cx, &m.args[0], Some(&Ty::Int(IntK::Usize)))?;
                                    let j = tr_expr(cx, &m.args[1], Some(&Ty::Int(IntK::Usize)))?;
                                    let r = tr_stmts(cx, rest, k)?;
                                    return Ok(Tr { s: format!("let self := {{ self with f_{ix} := (listSwap self.f_{ix} {} {}) }}\n{}", i.s, j.s, r.s, ix = ix.index), ty: r.ty, prop: r.prop });
                                }
                            }
                        }
                    }
                }
            }
            let recv_is_local_list = match strip(&m.receiver) {
                Expr::Path(p) if p.path.segments.len() == 1 => {
                    let nm = p.path.segments[0].ident.to_string();
                    matches!(cx.lookup(&nm), Some((_, Ty::List(_))))
                }
                _ => false,
            };
            if n == "swap" && m.args.len() == 2 && recv_is_local_list {
                let base = match strip(&m.receiver) {
                    Expr::Path(p) if p.path.segments.len() == 1 => p.path.segments[0].ident.to_string(),
                    _ => return Err("swap on complex place".into()),
                };
                let (ln, _) = cx.lookup(&base).ok_or("swap on unknown")?;
                let i = tr_expr(cx, &m.args[0], Some(&Ty::Int(IntK::Usize)))?;
                let j = tr_expr(cx, &m.args[1], Some(&Ty::Int(IntK::Usize)))?;
                let r = tr_stmts(cx, rest, k)?;
                return Ok(Tr { s: format!("let {} := (listSwap {} {} {})\n{}", ln, ln, i.s, j.s, r.s), ty: r.ty, prop: r.prop });
            }
            if n == "push" && m.args.len() == 1 && recv_is_local_list {
                let base = match strip(&m.receiver) {
                    Expr::Path(p) if p.path.segments.len() == 1 => p.path.segments[0].ident.to_string(),
                    _ => return Err("push on complex place".into()),
                };
                let (ln, ty) = cx.lookup(&base).ok_or("push on unknown")?;
                let el = match &ty {
                    Ty::List(t) => (**t).clone(),
                    _ => return Err("push on non-list".into()),
                };
                let v = tr_expr(cx, &m.args[0], Some(&el))?;
                let r = tr_stmts(cx, rest, k)?;
                return Ok(Tr { s: format!("let {} := ({} ++ [{}])\n{}", ln, ln, v.val(), r.s), ty: r.ty, prop: r.prop });
            }
            if n == "sort_by" && m.args.len() == 1 && recv_is_local_list {
                let base = match strip(&m.receiver) {
                    Expr::Path(p) => p.path.segments[0].ident.to_string(),
                    _ => unreachable!(),
                };
                let (ln, ty) = cx.lookup(&base).unwrap();
                let el = match &ty {
                    Ty::List(t) => (**t).clone(),
                    _ => unreachable!(),
                };
                // closure `|a, b| A.partial_cmp(B).unwrap()` → stable merge sort by `A ≤ B`
                let c = match strip(&m.args[0]) {
                    Expr::Closure(c) => c,
                    _ => return Err("sort_by with non-closure".into()),
                };
                let cbody: &Expr = match strip(&c.body) {
                    Expr::Block(b) if b.block.stmts.len() == 1 => match &b.block.stmts[0] {
                        Stmt::Expr(e, None) => e,
                        _ => &c.body,
                    },
                    e => e,
                };
                let body = match strip(cbody) {
                    Expr::MethodCall(u) if u.method == "unwrap" || u.method == "expect" => match strip(&u.receiver) {
                        Expr::MethodCall(pc) if pc.method == "partial_cmp" => Some(((*pc.receiver).clone(), pc.args[0].clone())),
                        _ => None,
                    },
                    Expr::MethodCall(pc) if pc.method == "total_cmp" => Some(((*pc.receiver).clone(), pc.args[0].clone())),
                    _ => None,
                };
                let (ea, eb) = body.ok_or("sort_by comparator shape")?;
                cx.push();
                let pa = tr_pat(cx, &c.inputs[0], &el)?;
                let pb = tr_pat(cx, &c.inputs[1], &el)?;
                let a = tr_expr(cx, &ea, None);
                let b = tr_expr(cx, &eb, None);
                cx.pop();
                let (a, b) = (a?, b?);
                let r = tr_stmts(cx, rest, k)?;
                return Ok(Tr { s: format!("let {ln} := (List.mergeSort {ln} (fun x_ y_ => match x_, y_ with | {pa}, {pb} => decide ({a} ≤ {b})))\n{r}", ln = ln, pa = pa, pb = pb, a = a.s, b = b.s, r = r.s), ty: r.ty, prop: r.prop });
            }
            // any other call evaluated for its effect (e.g. `self.swap(i, j)` with `&mut self`)
            let v = tr_expr(cx, e, None)?;
            let pre = cx.take_prelude();
            if pre.is_empty() {
                return Err(format!("statement method call .{} without effect", n));
            }
            let _ = v;
            let r = tr_stmts(cx, rest, k)?;
            Ok(Tr { s: format!("{}{}", pre, r.s), ty: r.ty, prop: r.prop })
        }
        Expr::Match(m) => stmt_match(cx, m, rest, k),
        Expr::Loop(l) => crate::loops::tr_loop(cx, crate::loops::LoopKind::Loop(&l.body), rest, k),
        Expr::While(w) => crate::loops::tr_loop(cx, crate::loops::LoopKind::While(&w.cond, &w.body), rest, k),
        Expr::ForLoop(f) => crate::loops::tr_loop(cx, crate::loops::LoopKind::For(&f.pat, &f.expr, &f.body), rest, k),
        Expr::Paren(p) => stmt_expr(cx, &p.expr, rest, k),
        Expr::Tuple(t) if t.elems.is_empty() => tr_stmts(cx, rest, k),
        other => Err(format!("unsupported statement: {}", other.to_token_stream().to_string().chars().take(60).collect::<String>())),
    }
}

fn stmt_match(cx: &mut Ctx, m: &ExprMatch, rest: &[Stmt], k: &Cont) -> R<Tr> {
    let scrut = tr_expr(cx, &m.expr, None)?;
    let pre = cx.take_prelude();
    let any_jump = m.arms.iter().any(|a| has_jump_expr(&a.body));
    let vars = assigned_outer(cx, &|f| {
        for a in &m.arms {
            f.visit_expr(&a.body);
        }
    });
    let seq = Cont::Seq(rest, k);
    let tup = Cont::Tuple(vars.clone());
    let mut arms = vec![];
    let mut ty = Ty::Never;
    for arm in &m.arms {
        if arm.guard.is_some() {
            return Err("match guard".into());
        }
        let body_stmts: Vec<Stmt> = match &*arm.body {
            Expr::Block(b) => b.block.stmts.clone(),
            e => vec![Stmt::Expr(e.clone(), Some(Default::default()))],
        };
        let r = with_scopes_saved(cx, |cx| {
            cx.push();
            let pat = tr_pat(cx, &arm.pat, &scrut.ty)?;
            let body = tr_stmts(cx, &body_stmts, if any_jump { &seq } else { &tup })?;
            Ok((pat, body))
        })?;
        ty = join_ty(&ty, &r.1.ty);
        arms.push(format!(" | {} =>\n{}", r.0, r.1.val()));
    }
    if any_jump {
        return Ok(Tr::new(format!("{}(match {} with\n{})", pre, scrut.val(), arms.join("\n")), ty));
    }
    if vars.is_empty() {
        return tr_stmts(cx, rest, k);
    }
    let (pat, _) = tuple_of(cx, &vars);
    let r = tr_stmts(cx, rest, k)?;
    Ok(Tr { s: format!("{}let {} := (match {} with\n{})\n{}", pre, pat, scrut.val(), arms.join("\n"), r.s), ty: r.ty, prop: r.prop })
}

pub fn block_has_return(b: &Block) -> bool {
    let mut f = RetFinder { found: false };
    f.visit_block(b);
    f.found
}

pub fn assigned_in_loop(cx: &Ctx, cond: Option<&Expr>, body: &Block) -> Vec<String> {
    assigned_outer(cx, &|f| {
        if let Some(c) = cond {
            f.visit_expr(c);
        }
        f.visit_block(body);
    })
}
