#!/usr/bin/env python3
"""Run the implementation (harness impl, restarted after a hang) on a request file; write replies."""
import subprocess, sys, os
def run_impl(req_path, out_path, harness, watchdog_s=5):
    lines=[l for l in open(req_path).read().split('\n') if l.strip()]
    replies=[]
    pos=0
    env=dict(os.environ, WATCHDOG_S=str(watchdog_s))
    while pos < len(lines):
        p=subprocess.run([harness,'impl'], input='\n'.join(lines[pos:])+'\n', capture_output=True, text=True, env=env)
        got=[l for l in p.stdout.split('\n') if l!='']
        replies.extend(got)
        pos=len(replies)
        if p.returncode==0: break
        if p.returncode!=3:
            # abort / crash: mark the current line
            replies.append('crash'); pos=len(replies)
    open(out_path,'w').write('\n'.join(replies)+'\n')
    return len(replies)
if __name__=='__main__':
    print(run_impl(sys.argv[1], sys.argv[2], sys.argv[3]))
