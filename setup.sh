#!/bin/sh
# Build everything from files on disk (offline): translator, generated model, theorem modules, driver, harness.
set -e
cd "$(dirname "$0")"
export CARGO_NET_OFFLINE=true
(cd rs2lean && cargo build --release --offline -q)
cp -n /repo/Cargo.lock harness/Cargo.lock 2>/dev/null || true
./rs2lean/target/release/rs2lean /repo/src lean/Statrs/Gen harness/src/gen_dispatch.rs
(cd lean && lake build driver Statrs)
(cd harness && cargo build --release --offline -q)
echo setup done
