#!/bin/sh
# trymut.sh <property> <patch.diff> : apply a seeded change to /repo, run the property's quick check, undo.
pid=$1; patch=$2
cd /repo && git apply "$patch" || { echo "patch does not apply"; exit 2; }
cd /verif && ./check $pid 2>&1 | grep -E "^\[check\] (theorems|corresp|search|  disag)|VIOLATION|KNOWN" | cut -c1-260
rc=$?
cd /repo && git checkout -- . 
