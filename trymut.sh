#!/bin/sh
# trymut.sh <property> <patch.diff> : apply a seeded change to /repo, run the property's quick check, undo.
# The evidence file and the generated model are put back afterwards, so that nothing from a mutated tree is
# ever committed.
pid=$1; patch=$2
cp /verif/evidence/$pid.json /tmp/.trymut_evidence_$pid.json 2>/dev/null
cd /repo && git apply "$patch" || { echo "patch does not apply"; exit 2; }
cd /verif && ./check $pid 2>&1 | grep -E "^\[check\] (theorems|corresp|search|  disag)|VIOLATION|KNOWN" | cut -c1-260
cd /repo && git checkout -- .
cd /verif && ./rs2lean/target/release/rs2lean /repo/src lean/Statrs/Gen harness/src/gen_dispatch.rs >/dev/null 2>&1
[ -f /tmp/.trymut_evidence_$pid.json ] && mv /tmp/.trymut_evidence_$pid.json /verif/evidence/$pid.json
rm -rf /verif/replay/$pid-*.json 2>/dev/null
true
